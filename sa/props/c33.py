"""C33 — search recipes: wire-format agreement between the client serialisers and the server parser."""

import ast

from ..astutil import call_attr, call_recv, calls_in, const_value, norm, walk_own
from ..rules import fn_cfg, k2_unreachable, need
from ..selftest import Mutant

ID = "C33"
TECHNIQUE = "writer/reader table extraction for the search-recipe wire format (K6) and guard on the count check (K2) (ast)"
FLOOR = 18
VS = "breezy/bzr/vf_search.py"
SR = "breezy/bzr/smart/repository.py"
RM = "breezy/bzr/remote.py"
EXPLANATION = """
K6 wire table: (a) the recipe tags written by vf_search.py (*Result.get_network_struct: b"everything", b"ancestry-of",
and "search" — the first element of SearchResult's recipe) are exactly the tags dispatched by
smart/repository.py:recreate_search, which answers BadSearch for anything else; (b) both serialisers of a search recipe
(SearchResult.get_network_struct and RemoteRepository._serialise_search_recipe) emit, joined by b"\\n", the start keys
(recipe[1], joined by b" "), the stop keys (recipe[2], joined by b" ") and the ascii count (recipe[3]) in that order, and
recreate_search_from_recipe reads lines[0] as start keys (split on b" ") for the searcher, lines[1] as the keys to stop at,
lines[2] as the ascii count. (K2) the server answers NoSuchRevision when the number of revisions it walked differs from
the client's count, unless discard_excess was requested, and builds its SearchResult from what it walked.
Added while testing against seeded changes: Also: the walked state (started_keys, excludes, included_keys) reaches the
count check and the SearchResult unmodified; limited_search_result_from_parent_map returns exactly the locally
replayed search's (start minus found heads, stop, len(keys)).
refine-accumulators-per-source: both sets handed to search.refine() in RemoteStreamSource.missing_parents_chain are reset
after every refine. stop-keys-from-seen-ancestors: _walk_to_common_revisions stops its searcher at
find_seen_ancestors(have_revs) (third-round seeds).
Does not decide: that the client's recipe denotes the intended set of revisions (graph values).
"""


def _join_fields(fn):
    """For a serialiser: [(separator literal, source index in recipe)] in order of the final b"\\n".join((...))."""
    defs = {norm(s.targets[0]): s.value for s in walk_own(fn) if isinstance(s, ast.Assign) and len(s.targets) == 1}
    final = None
    for n in walk_own(fn):
        if isinstance(n, ast.Call) and call_attr(n) == "join" and const_value(n.func.value) == b"\n" and n.args and isinstance(n.args[0], ast.Tuple):
            final = n.args[0]
    if final is None:
        return None
    out = []
    for e in final.elts:
        v = defs.get(norm(e), e)
        idx = None
        for m in ast.walk(v):
            if isinstance(m, ast.Subscript) and isinstance(m.slice, ast.Constant) and ("recipe" in norm(m.value)):
                idx = m.slice.value
        sep = None
        if isinstance(v, ast.Call) and call_attr(v) == "join":
            sep = const_value(v.func.value)
        elif isinstance(v, ast.Call) and call_attr(v) == "encode":
            sep = "ascii-int"
        out.append((sep, idx))
    return out


#: locals of recreate_search_from_recipe by what they hold
RECIPE_ROLES = {"start_keys": ("assign", "set(lines[0].split(b' '))"), "exclude_keys": ("assign", "set(lines[1].split(b' '))"), "revision_count": ("assign", "int(lines[2].decode('ascii'))"), "search": ("assign", "~repository\\.get_graph\\(\\)\\._make_breadth_first_searcher\\(.*\\)"), "started_keys": ("assign", "{search}.get_state()", 0), "excludes": ("assign", "{search}.get_state()", 1), "included_keys": ("assign", "{search}.get_state()", 2), "search_result": ("assign", "~vf_search\\.SearchResult\\(.*\\)")}

def run(ctx):
    repo = ctx.repo
    # ---- tags ----------------------------------------------------------------
    written = {}
    for q, fn in repo.module(VS).functions().items():
        if q.endswith(".get_network_struct"):
            for n in walk_own(fn):
                if isinstance(n, ast.Constant) and isinstance(n.value, bytes) and n.value.isalpha() or (isinstance(n, ast.Constant) and n.value == b"ancestry-of"):
                    written[n.value] = q
    init = repo.func(VS, "SearchResult.__init__")
    rec = [s for s in walk_own(init) if isinstance(s, ast.Assign) and norm(s.targets[0]) == "self._recipe" and isinstance(s.value, ast.Tuple)]
    ctx.check("tags", f"{VS}:SearchResult.__init__", len(rec) == 1 and const_value(rec[0].value.elts[0]) == "search" and len(rec[0].value.elts) == 4, "a search recipe is ('search', start keys, exclude keys, count)")
    gns = repo.func(VS, "SearchResult.get_network_struct")
    ctx.check("tags", f"{VS}:SearchResult.get_network_struct", any(norm(n) == "self._recipe[0].encode('ascii')" for n in walk_own(gns)), "the tag sent is the recipe's first element")
    written[b"search"] = "SearchResult.get_network_struct"
    rs = repo.func(SR, "SmartServerRepositoryRequest.recreate_search")
    read = set()
    for n in walk_own(rs):
        if isinstance(n, ast.Compare) and isinstance(n.ops[0], ast.Eq) and isinstance(n.comparators[0], ast.Constant) and isinstance(n.comparators[0].value, bytes):
            read.add(n.comparators[0].value)
    ctx.check("tags", f"{SR}:SmartServerRepositoryRequest.recreate_search", set(written) == read, f"tags written {sorted(written)} == tags dispatched {sorted(read)}", construct=f"written {sorted(written)} / read {sorted(read)}", message=f"search tags disagree: clients write {sorted(written)}, the server dispatches {sorted(read)}")
    ctx.check("tags", f"{SR}:SmartServerRepositoryRequest.recreate_search", any(isinstance(n, ast.Constant) and n.value == b"BadSearch" for n in walk_own(rs)), "an unknown tag is answered with BadSearch")
    # ---- field order ------------------------------------------------------------
    want = [(b" ", 1), (b" ", 2), ("ascii-int", 3)]
    for rel, q in ((VS, "SearchResult.get_network_struct"), (RM, "RemoteRepository._serialise_search_recipe")):
        f = repo.func(rel, q)
        got = _join_fields(f)
        ctx.check("writer-fields", f"{rel}:{q}", got == want, "serialised as start keys | stop keys | count, separated by newline, keys by space", construct=str(got), message=f"{q} serialises {got}, the server expects {want}")
    from ..astutil import bind_roles, canonicalise

    fr = repo.func(SR, "SmartServerRepositoryRequest.recreate_search_from_recipe")
    where = f"{SR}:SmartServerRepositoryRequest.recreate_search_from_recipe"
    # the three header fields are bound by how they are read; a field read differently fails to bind and is reported
    try:
        fr = canonicalise(fr, bind_roles(fr, RECIPE_ROLES, where))
    except Exception as e_:  # noqa: BLE001 - reported as the violation it is
        ctx.check("reader-fields", where, False, "the recipe is read as line 0 = start keys, line 1 = stop keys (space separated), line 2 = ascii count", construct=str(e_)[:200], message=f"the server no longer reads the recipe as start keys / stop keys / ascii count: {str(e_)[:200]}")
    defs = {norm(s.targets[0]): norm(s.value) for s in walk_own(fr) if isinstance(s, ast.Assign) and len(s.targets) == 1}
    ctx.check("reader-fields", where, defs.get("start_keys") == "set(lines[0].split(b' '))", "line 0 = start keys, split on space", construct=defs.get("start_keys", ""))
    ctx.check("reader-fields", where, defs.get("exclude_keys") == "set(lines[1].split(b' '))", "line 1 = stop keys, split on space", construct=defs.get("exclude_keys", ""))
    ctx.check("reader-fields", where, defs.get("revision_count") == "int(lines[2].decode('ascii'))", "line 2 = ascii revision count", construct=defs.get("revision_count", ""))
    cs = calls_in(fr)
    ctx.check("reader-use", where, any(call_attr(c) == "_make_breadth_first_searcher" and [norm(a) for a in c.args] == ["start_keys"] for c in cs), "the walk starts from the start keys")
    ctx.check("reader-use", where, any(call_attr(c) == "stop_searching_any" and "exclude_keys" in norm(c.args[0]) for c in cs), "the walk stops at the stop keys")
    disp = [c for c in calls_in(rs) if call_attr(c) == "recreate_search_from_recipe"]
    from ..astutil import bound_names

    _ln = bound_names(rs, lambda t, n: t == "search_bytes.split(b'\\n')")
    ctx.check("reader-use", f"{SR}:SmartServerRepositoryRequest.recreate_search", len(disp) == 1 and norm(disp[0].args[1]) == f"{_ln[0]}[1:]" if len(_ln) == 1 else False, "the recipe body is everything after the tag line")
    # ---- limited recipe: what is sent is the state of the local replay of the same walk ------------------------------
    fl = repo.func(VS, "limited_search_result_from_parent_map")
    wl_ = f"{VS}:limited_search_result_from_parent_map"
    from ..astutil import bind_roles, canonicalise

    fl = canonicalise(fl, bind_roles(fl, {"start_keys": ("assign", "~\\w+\\.get_state\\(\\)", 0), "exclude_keys": ("assign", "~\\w+\\.get_state\\(\\)", 1), "keys": ("assign", "~\\w+\\.get_state\\(\\)", 2), "found_heads": ("assign", "~_run_search\\(.*\\)", 1)}, wl_))
    rets3 = [norm(r.value) for r in walk_own(fl) if isinstance(r, ast.Return) and isinstance(r.value, ast.Tuple) and len(r.value.elts) == 3 and not all(isinstance(e, (ast.List, ast.Constant)) for e in r.value.elts)]
    ctx.check("limited-recipe-is-replay-state", wl_, rets3 == ["(start_keys, exclude_keys, len(keys))"], "the limited recipe returns (start keys, stop keys, number of keys) of the locally replayed search", construct=str(rets3), message=f"limited_search_result_from_parent_map returns {rets3}: the stop keys / count are no longer the state of the local replay of the walk the server will repeat, so the server's count check fails (or passes for a different set)")
    for v, allowed in (("exclude_keys", ()), ("keys", ()), ("start_keys", ("set(start_keys).difference(found_heads)", "start_keys.difference(found_heads)"))):
        binds = [norm(s_.value) for s_ in walk_own(fl) if isinstance(s_, (ast.Assign, ast.AugAssign)) and any(isinstance(t, ast.Name) and t.id == v for t_ in (s_.targets if isinstance(s_, ast.Assign) else [s_.target]) for t in ast.walk(t_)) and not (isinstance(s_, ast.Assign) and isinstance(s_.value, ast.Call) and call_attr(s_.value) == "get_state")]
        extra = [b for b in binds if b not in allowed]
        ctx.check("limited-recipe-is-replay-state", wl_, not extra, f"`{v}` is the replayed search's own state" + (" minus heads found while walking" if allowed else ""), construct="; ".join(extra), message=f"`{v}` of the limited recipe is rewritten ({'; '.join(extra)}) after the local replay: the recipe no longer describes the walk that was replayed")
    # ---- count check --------------------------------------------------------------
    fn, g, where = fn_cfg(ctx, SR, "SmartServerRepositoryRequest.recreate_search_from_recipe", roles=RECIPE_ROLES)
    oks = [n.id for n in g.nodes if n.kind == "stmt" and isinstance(n.ast, ast.Return) and "search_result" in norm(n.ast.value)]
    need(where, oks, "return (search_result, None)")
    k2_unreachable(ctx, "count-check", where, g, {"discard_excess": False, "not discard_excess": True, "len(included_keys) != revision_count": True}, oks, "a count mismatch is answered with NoSuchRevision unless discard_excess")
    ctx.check("count-check", where, any(isinstance(n, ast.Constant) and n.value == b"NoSuchRevision" for n in walk_own(fn)), "the mismatch answer is NoSuchRevision")
    # what is counted is exactly what the walk returned: the state is not rewritten between get_state() and its uses
    MUT = {"discard", "remove", "add", "update", "difference_update", "intersection_update", "symmetric_difference_update", "pop", "clear"}
    for v in ("started_keys", "excludes", "included_keys"):
        re_ = [norm(s_)[:60] for s_ in walk_own(fn) if isinstance(s_, (ast.Assign, ast.AugAssign)) and any(isinstance(t, ast.Name) and t.id == v for t_ in (s_.targets if isinstance(s_, ast.Assign) else [s_.target]) for t in ast.walk(t_)) and not (isinstance(s_, ast.Assign) and isinstance(s_.value, ast.Call) and call_attr(s_.value) == "get_state")]
        mu = [norm(c)[:60] for c in calls_in(fn) if call_recv(c) == v and call_attr(c) in MUT]
        ctx.check("count-check", where, not re_ and not mu, f"`{v}` from search.get_state() reaches the count check and the SearchResult unmodified", construct="; ".join(re_ + mu), message=f"the walk's state `{v}` is rewritten before it is counted / returned ({'; '.join(re_ + mu)}): the server no longer checks the count of what it actually walked against the client's count (a recipe whose walk reaches null: now fails or passes wrongly)")
    sres = [c for c in calls_in(fn) if call_attr(c) == "SearchResult"]
    ctx.check("count-check", where, len(sres) == 1 and [norm(a) for a in sres[0].args] == ["started_keys", "excludes", "len(included_keys)", "included_keys"], "the server's SearchResult is built from what it actually walked")


    # ---- refine(): the sets subtracted from the recipe are per source --------------------------------------------------
    # RemoteStreamSource.missing_parents_chain: search.refine(seen, referenced) subtracts len(seen) from the recipe's count;
    # both accumulators are reset after every refine, or the revisions of an earlier source are subtracted again for the
    # next one and the count no longer describes the walk the deepest fallback is asked to replay.
    from ..cfg import build_cfg as _bcfg

    fmc = repo.func(RM, "RemoteStreamSource.missing_parents_chain")
    wmc = f"{RM}:RemoteStreamSource.missing_parents_chain"
    gmc = _bcfg(fmc).without_exc_edges()
    refs_ = [(n.id, [norm(a) for a in c.args]) for n in gmc.nodes for c in n.calls() if call_attr(c) == "refine"]
    ctx.require(len(refs_) >= 1, f"{wmc}: the refine() call was not found")
    for rid, args in refs_:
        for a in args:
            resets = [n.id for n in gmc.nodes if n.kind == "stmt" and isinstance(n.ast, ast.Assign) and any(norm(t) == a for t in n.ast.targets) and norm(n.ast.value) in ("set()", "frozenset()")]
            after = [r_ for r_ in resets if r_ in gmc.reach([rid])]
            loop = gmc.loops_of(rid)
            back = [loop[-1]] if loop else []
            leak = bool(back) and back[0] in gmc.reach([rid], avoid=set(after)) if after else True
            ctx.check("refine-accumulators-per-source", wmc, bool(after) and not leak, f"`{a}` is reset after refine() before the next source is asked", construct=a, message=f"`{a}` keeps accumulating across the sources of the fallback chain: refine() subtracts len(seen) from the recipe's count, so with three or more repositories the top repository's revisions are subtracted twice and the recipe sent to the deepest fallback has a wrong count (when it reaches 0 that fallback is never asked and revisions are silently missing)")
    # ---- the stop keys of the walk to the common revisions come from the walked graph ----------------------------------
    VFR = "breezy/bzr/vf_repository.py"
    fwc = repo.func(VFR, "InterVersionedFileRepository._walk_to_common_revisions")
    wwc = f"{VFR}:InterVersionedFileRepository._walk_to_common_revisions"
    stops = [c for c in calls_in(fwc) if call_attr(c) == "stop_searching_any"]
    ctx.require(len(stops) >= 1, f"{wwc}: stop_searching_any(...) not found")
    for c in stops:
        a = c.args[0] if c.args else None
        if isinstance(a, ast.Name):
            defs = [s_.value for s_ in walk_own(fwc) if isinstance(s_, ast.Assign) and any(norm(t) == a.id for t in s_.targets)]
            a = defs[0] if len(defs) == 1 else a
        okw = isinstance(a, ast.Call) and call_attr(a) == "find_seen_ancestors" and call_recv(a) == call_recv(c)
        ctx.check("stop-keys-from-seen-ancestors", wwc, okw, "the walk is stopped at find_seen_ancestors(<revisions the target has>)", construct=norm(c)[:80], message=f"`{norm(c)[:70]}` stops the walk at the target's revisions themselves instead of their ancestors among the revisions already seen: when the target holds X but not one of X's ancestors (a ghost filled later), the batched walk has already gone through X into those ancestors — they stay in the recipe's count but are only reachable through excluded keys, so the server's replay never reaches them")


MUTANTS = [
    Mutant("seen revisions accumulate across the fallback chain", RM, "            search = search.refine(self.seen_revs, self.referenced_revs)\n            self.seen_revs = set()\n", "            search = search.refine(self.seen_revs, self.referenced_revs)\n", expect="refine-accumulators-per-source"),
    Mutant("walk stopped at the target's revisions, not their seen ancestors", "breezy/bzr/vf_repository.py", "                stop_revs = searcher.find_seen_ancestors(have_revs)\n                searcher.stop_searching_any(stop_revs)\n", "                searcher.stop_searching_any(have_revs)\n", expect="stop-keys-from-seen-ancestors"),
    Mutant("limited recipe drops ghost stop keys", VS, "        start_keys = set(start_keys).difference(found_heads)\n    return start_keys, exclude_keys, len(keys)", "        start_keys = set(start_keys).difference(found_heads)\n    exclude_keys = set(exclude_keys).difference(missing_keys)\n    return start_keys, exclude_keys, len(keys)", expect="limited-recipe-is-replay-state"),
    Mutant("null: dropped from the walked keys before the count check", SR, "            (started_keys, excludes, included_keys) = search.get_state()\n", "            (started_keys, excludes, included_keys) = search.get_state()\n            included_keys = set(included_keys)\n            included_keys.discard(b\"null:\")\n", expect="count-check"),
    Mutant("start/stop lines swapped in the client serialiser", RM, "        return b\"\\n\".join((start_keys, stop_keys, count))\n\n    def _serialise_search_result", "        return b\"\\n\".join((stop_keys, start_keys, count))\n\n    def _serialise_search_result", expect="writer-fields"),
    Mutant("tag renamed on the client only", VS, "        parts = [b\"ancestry-of\"]", "        parts = [b\"ancestry\"]", expect="tags"),
    Mutant("server reads the count from the wrong line", SR, "        revision_count = int(lines[2].decode(\"ascii\"))", "        revision_count = int(lines[-1].decode(\"ascii\"))", expect="reader-fields"),
    Mutant("count mismatch ignored", SR, "            if not discard_excess and len(included_keys) != revision_count:", "            if not discard_excess and len(included_keys) < revision_count:", expect="count-check"),
    Mutant("neutral: locals renamed in the serialiser", RM, "        start_keys = b\" \".join(recipe[1])\n        stop_keys = b\" \".join(recipe[2])\n        count = str(recipe[3]).encode(\"ascii\")\n        return b\"\\n\".join((start_keys, stop_keys, count))\n\n    def _serialise_search_result", "        starts = b\" \".join(recipe[1])\n        stops = b\" \".join(recipe[2])\n        n = str(recipe[3]).encode(\"ascii\")\n        return b\"\\n\".join((starts, stops, n))\n\n    def _serialise_search_result", neutral=True),
]
