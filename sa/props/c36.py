"""C36 — git identifier mappings round-trip: writer/reader table agreement."""

import ast
import re

from ..astutil import call_attr, call_name, call_recv, calls_in, const_value, norm, walk_own
from ..rustlite import RustFile
from ..index import AnalysisError
from ..selftest import Mutant

ID = "C36"
TECHNIQUE = "writer/reader literal-table extraction and comparison (K6) over refs.py, mapping.py, urls.py (ast) and crates/git/src/lib.rs (Rust-lite)"
FLOOR = 15
RF = "breezy/git/refs.py"
MP = "breezy/git/mapping.py"
UR = "breezy/git/urls.py"
RS = "crates/git/src/lib.rs"
EXPLANATION = """
R1 (K6) refs.py: the prefix constant prepended by branch_name_to_ref / tag_name_to_ref is the same name that
   ref_to_branch_name / ref_to_tag_name test with startswith() and slice with len(); "" <-> b"HEAD" is mapped both
   ways; a ref outside the prefix raises rather than being mangled.
R2 (K8) mapping.py: escape_file_id and unescape_file_id are evaluated abstractly (no execution of repo code: the
   function ASTs are interpreted) on every string of length <= 3 (thorough: <= 4) over the bytes either function mentions
   (escape character, escaped bytes, code letters — read from the code on every run) plus one neutral byte:
   unescape(escape(x)) == x and escape is injective.  Only when either function uses a construct the evaluator does
   not model do the older syntactic rules decide instead (replace() pairs inverted by the dispatch chain, escape
   character escaped first, unknown code raises).
R4/R5 (K8) the same abstract evaluation decides parse_file_id(generate_file_id(p)) == p (root, escape characters, '/',
   a non-UTF-8 byte carried as a surrogate, a non-ASCII letter; ids pairwise distinct) and
   revision_id_bzr_to_foreign(revision_id_foreign_to_bzr(sha)) == sha under every mapping class's revid_prefix.
R3 (K6/K10) URL segment-parameter keys written by urls.py:git_url_to_bzr_url equal the keys read by
   crates/git/src/lib.rs:bzr_url_to_git_url, and the (url, branch, ref) result order matches what
   git/branch.py:GitBranch.set_parent unpacks.
Added while testing against seeded changes: Also: URL parameter values percent-encoded by the writer are decoded by
the Rust reader; set_parent and get_parent use the same git config entries (section roles: remote resolver, branch
name).
Third round: R4a-path-codec-pair — encode_git_path / decode_git_path name the same constant codec and error handler (.encode/.decode,
str()/bytes() or codecs.* with constant arguments); parent-config-read-fresh — TransportRepo.get_config / get_config_stack read
the file on every call and keep no parsed copy on self. The R4/R5/identity tables are now fail-closed: when the abstract
interpreter cannot evaluate the functions any more the run ends as ANALYSIS-ERROR instead of a silent "not decided".
Fourth round: R3b-ref-parameter-codec-pair — the ,ref= URL parameter written by git_url_to_bzr_url with quote_from_bytes is returned by
GitDir._get_selected_ref through unquote_to_bytes (byte-exact; refs need not be UTF-8). R5b-null-sha-short-circuits — under the assumption
sha == ZERO_SHA no object-store lookup is reachable in LocalGitRepository.lookup_foreign_revision_id and NULL_REVISION is returned.
Does not decide: quoting of arbitrary bytes (urlutils).
"""


def _prefix_of_writer(fn):
    """Names N such that the function returns `N + <something>`."""
    out = set()
    for n in walk_own(fn):
        if isinstance(n, ast.Return) and isinstance(n.value, ast.BinOp) and isinstance(n.value.op, ast.Add) and isinstance(n.value.left, ast.Name):
            out.add(n.value.left.id)
    return out


def _prefix_of_reader(fn):
    """(names tested with startswith, names used in len() inside a slice lower bound)."""
    sw, ln = set(), set()
    for n in walk_own(fn):
        if isinstance(n, ast.Call) and call_attr(n) == "startswith" and n.args and isinstance(n.args[0], ast.Name):
            sw.add(n.args[0].id)
        if isinstance(n, ast.Subscript) and isinstance(n.slice, ast.Slice) and n.slice.lower is not None:
            for c in ast.walk(n.slice.lower):
                if isinstance(c, ast.Call) and norm(c.func) == "len" and c.args and isinstance(c.args[0], ast.Name):
                    ln.add(c.args[0].id)
    return sw, ln


def run(ctx):
    repo = ctx.repo
    # ---- R1 -----------------------------------------------------------------
    for w, r in (("branch_name_to_ref", "ref_to_branch_name"), ("tag_name_to_ref", "ref_to_tag_name")):
        fw, fr = repo.func(RF, w), repo.func(RF, r)
        pw = _prefix_of_writer(fw)
        sw, ln = _prefix_of_reader(fr)
        where = f"{RF}:{w}/{r}"
        ctx.check("R1-prefix-pair", where, len(pw) == 1 and pw == sw == ln, f"writer prepends {sorted(pw)}; reader tests startswith {sorted(sw)} and slices len {sorted(ln)}", construct=f"writer {sorted(pw)} reader startswith {sorted(sw)} len {sorted(ln)}", message=f"prefix constants disagree between {w} and {r}: writer {sorted(pw)}, reader startswith {sorted(sw)}, slice len {sorted(ln)}")
        raises = [n for n in walk_own(fr) if isinstance(n, ast.Raise)]
        ctx.check("R1-reader-rejects-foreign", where, bool(raises), f"{r} raises for a ref outside the prefix")
    fw, fr = repo.func(RF, "branch_name_to_ref"), repo.func(RF, "ref_to_branch_name")

    def special(fn, test_const, ret_const):
        for n in walk_own(fn):
            if isinstance(n, ast.If) and isinstance(n.test, ast.Compare) and len(n.test.ops) == 1 and isinstance(n.test.ops[0], ast.Eq) and const_value(n.test.comparators[0], object) == test_const:
                for b in n.body:
                    if isinstance(b, ast.Return) and const_value(b.value, object) == ret_const:
                        return True
        return False

    ctx.check("R1-head", f"{RF}:branch_name_to_ref", special(fw, "", b"HEAD"), '"" maps to b"HEAD"')
    ctx.check("R1-head", f"{RF}:ref_to_branch_name", special(fr, b"HEAD", ""), 'b"HEAD" maps back to ""')
    # the prefix constants are the dulwich ones (imported), not redefined locally with another value
    imps = repo.module(RF).imports()
    ctx.check("R1-prefix-source", RF, all(imps.get(k, ("", ""))[0] == "dulwich.refs" for k in ("LOCAL_BRANCH_PREFIX", "LOCAL_TAG_PREFIX")), "prefix constants come from dulwich.refs")

    # ---- R2 -----------------------------------------------------------------
    fe, fu = repo.func(MP, "escape_file_id"), repo.func(MP, "unescape_file_id")
    where = f"{MP}:escape_file_id/unescape_file_id"
    # decided by abstract evaluation (K8 table): every string over the escape alphabet round-trips and escaping is
    # injective. Independent of how either side is written; the syntactic table rules below are the fallback when the
    # functions use constructs the evaluator does not model.
    import itertools

    from ..absint import Interp, Raised, Unsupported, module_regex_hook

    it = Interp(name_hook=module_regex_hook(repo.module(MP).tree), loop_bound=256)
    # alphabet: every byte either function mentions (escape character, escaped bytes, code letters) and one neutral byte
    alpha_set = {b"a"}
    for f_ in (fe, fu):
        for n in ast.walk(f_):
            if isinstance(n, ast.Constant) and isinstance(n.value, bytes) and 1 <= len(n.value) <= 2:
                alpha_set |= {n.value[i : i + 1] for i in range(len(n.value))}
    for n in ast.walk(repo.module(MP).tree):
        if isinstance(n, ast.Assign) and isinstance(n.value, ast.Call) and norm(n.value.func) == "re.compile" and any(isinstance(x, ast.Name) and x.id == norm(n.targets[0]) for f_ in (fe, fu) for x in ast.walk(f_)):
            alpha_set |= {b"_", b" ", b"\x0c", b"s", b"c"}
    alpha = sorted(alpha_set)
    ctx.require(3 <= len(alpha) <= 12, f"{where}: escape alphabet not recognised ({alpha})")
    maxlen = 4 if ctx.tier == "thorough" else 3
    rows = [b"".join(t) for k in range(maxlen + 1) for t in itertools.product(alpha, repeat=k)]
    bad, table_ok = [], True
    try:
        images = {}
        for x in rows:
            e = it.call(fe, {fe.args.args[0].arg: x})
            try:
                back = it.call(fu, {fu.args.args[0].arg: e})
            except Raised as r:
                back = ("raises", r.name)
            if back != x:
                bad.append((x, e, back))
            if e in images and images[e] != x:
                bad.append((x, e, ("collides with", images[e])))
            images[e] = x
    except (Raised, Unsupported) as ex:
        table_ok = False
        ctx.info("R2-roundtrip-table", where, f"round-trip table not evaluable ({ex}); the syntactic table rules decide instead")
    if table_ok:
        ctx.fact(len(rows))
        ctx.check("R2-roundtrip-table", where, not bad, f"unescape_file_id(escape_file_id(x)) == x and escape is injective for all {len(rows)} strings of length <= {maxlen} over the {len(alpha)} bytes the two functions mention plus a neutral one", construct=str(bad[:2]), message=f"file ids do not survive escaping: {bad[:2]} — a file id containing the escape character, a space or a form feed comes back as a different id after a round trip through Git")
    if not table_ok:
        pairs = []
        for n in walk_own(fe):
            if isinstance(n, ast.Call) and call_attr(n) == "replace" and len(n.args) == 2:
                pairs.append((n.lineno, const_value(n.args[0]), const_value(n.args[1])))
        pairs = [(a, b) for _, a, b in sorted(pairs)]
        ctx.check("R2-escape-shape", where, len(pairs) >= 3 and all(isinstance(a, bytes) and isinstance(b, bytes) and len(a) == 1 and len(b) == 2 for a, b in pairs), f"escape pairs {pairs}")
        esc = {b[:1] for a, b in pairs}
        ctx.check("R2-escape-char-first", where, len(esc) == 1 and pairs and pairs[0][0] in esc and pairs[0][1] == pairs[0][0] * 2, "one escape character, and it is itself escaped first (so later replacements are not re-escaped)", construct=str(pairs[:1]), message="the escape character is not escaped first: escaping is no longer injective")
        # reader: chain of `file_id[i+1:i+2] == X` -> ret.append(Y[0])
        rd = {}
        for n in walk_own(fu):
            if isinstance(n, ast.If) and isinstance(n.test, ast.Compare) and isinstance(n.test.ops[0], ast.Eq) and isinstance(n.test.comparators[0], ast.Constant) and isinstance(n.test.comparators[0].value, bytes):
                code = n.test.comparators[0].value
                for b in n.body:
                    for c in calls_in(b):
                        if call_attr(c) == "append" and c.args:
                            lits = [x.value for x in ast.walk(c.args[0]) if isinstance(x, ast.Constant) and isinstance(x.value, bytes)]
                            if lits:
                                rd[code] = lits[0]
        want = {b[1:]: a for a, b in pairs}
        ctx.check("R2-inverse-table", where, rd == want, f"unescape table {rd} inverts escape table", construct=f"escape {pairs} / unescape {rd}", message=f"unescape_file_id does not invert escape_file_id: escape {pairs}, unescape {rd}")
        gate = [n for n in walk_own(fu) if isinstance(n, ast.Compare) and isinstance(n.ops[0], ast.NotEq) and isinstance(n.comparators[0], ast.Constant) and n.comparators[0].value in esc]
        ctx.check("R2-inverse-table", where, bool(gate), "unescape dispatches on the same escape character")
        ctx.check("R2-unknown-code-raises", where, any(isinstance(n, ast.Raise) for n in walk_own(fu)), "an unknown escape code raises")

    # ---- R4a: the two path codecs are one codec written in both directions ----------------------------------------------
    def _codec_of(fname, direction):
        f_ = repo.func(MP, fname)
        out = []
        for c in calls_in(f_):
            if call_attr(c) == direction and len(c.args) >= 1:
                out.append(tuple(const_value(a, None) for a in c.args) + tuple(sorted((k.arg, const_value(k.value, None)) for k in c.keywords)))
            if call_name(c) in ("str", "bytes", f"codecs.{direction}") and len(c.args) >= 2:
                out.append(tuple(const_value(a, None) for a in c.args[1:]))
        return f_, out

    fe_, enc_ = _codec_of("encode_git_path", "encode")
    fd_, dec_ = _codec_of("decode_git_path", "decode")
    wcodec = f"{MP}:encode_git_path/decode_git_path"
    ok_codec = len(enc_) == 1 and len(dec_) == 1 and enc_ == dec_ and all(isinstance(x, str) for x in enc_[0]) and len(enc_[0]) >= 1
    ctx.check("R4a-path-codec-pair", wcodec, ok_codec, f"both directions name the same constant codec and error handler ({enc_[0] if enc_ else '?'})", construct=f"encode {enc_} / decode {dec_}", message=f"encode_git_path uses {enc_ or 'no constant codec'} and decode_git_path uses {dec_ or 'no constant codec (e.g. a locale-dependent decoder)'}: the two are no longer inverses for every path — a non-ASCII or non-UTF-8 path does not come back from parse_file_id(generate_file_id(p)), tree listings show mangled names under a non-UTF-8 locale")
    # ---- R4/R5: path <-> file id and git sha <-> revision id, decided by the same abstract evaluation ----------------
    from ..absint import Obj

    _mc = module_regex_hook(repo.module(MP).tree)
    # constants of other packages the two mappings compare with (dulwich.protocol.ZERO_SHA, breezy.revision.NULL_REVISION)
    _ext = {"ZERO_SHA": b"0" * 40, "NULL_REVISION": b"null:"}

    def mod_consts(name):
        v = _mc(name)
        return _ext.get(name, NotImplemented) if v is NotImplemented else v

    def _hook45(interp, call, name, ev_args, env):
        if name and "." not in name and repo.has(MP, name):
            f_ = repo.func(MP, name)
            args, kw = ev_args()
            return interp.call(f_, {**dict(zip([a.arg for a in f_.args.args], args)), **kw})
        if name == "cls":
            return Obj("mapping")
        return NotImplemented

    it45 = Interp(call_hook=_hook45, name_hook=mod_consts, loop_bound=256)
    fg, fpz = repo.func(MP, "BzrGitMapping.generate_file_id"), repo.func(MP, "BzrGitMapping.parse_file_id")
    wfid = f"{MP}:BzrGitMapping.generate_file_id/parse_file_id"
    paths = [""] + ["".join(t) for k in (1, 2, 3) for t in itertools.product(["a", "_", " ", "/", "\x0c", "\udcff", "\xe9"], repeat=k)]
    badp, ok45 = [], True
    try:
        seen_ids = {}
        for x in paths:
            it45.steps = 0
            fid = it45.call(fg, {"self": Obj("mapping"), "path": x})
            try:
                back = it45.call(fpz, {"self": Obj("mapping"), "file_id": fid})
            except Raised as r:
                back = ("raises", r.name)
            if back != x:
                badp.append((x, fid, back))
            if fid in seen_ids and seen_ids[fid] != x:
                badp.append((x, fid, ("collides with", seen_ids[fid])))
            seen_ids[fid] = x
    except (Raised, Unsupported) as ex:
        ok45 = False
        raise AnalysisError(f"{wfid}: not evaluable by the abstract interpreter ({ex}) — hand-confirmed evaluable on the pinned tree, so the rule cannot be decided on this one")
    if ok45:
        ctx.fact(len(paths))
        ctx.check("R4-fileid-roundtrip-table", wfid, not badp, f"parse_file_id(generate_file_id(p)) == p and the ids are distinct for {len(paths)} paths (root, escape characters, '/', a non-UTF-8 byte as surrogate, a non-ASCII letter)", construct=str(badp[:2]), message=f"paths do not survive the file-id mapping: {badp[:2]}")
    sub = [q for q in repo.module(MP).classes() if (MP, "BzrGitMapping") in repo.mro(MP, q) and q != "BzrGitMapping"]
    prefixes = {}
    for q in sub:
        for st in repo.cls(MP, q).body:
            if isinstance(st, ast.Assign) and norm(st.targets[0]) == "revid_prefix" and isinstance(st.value, ast.Constant):
                prefixes[q] = st.value.value
    ctx.require(len(prefixes) >= 2, f"{MP}: only {len(prefixes)} mapping classes with a revid_prefix found")
    ff, fb = repo.func(MP, "BzrGitMapping.revision_id_foreign_to_bzr"), repo.func(MP, "BzrGitMapping.revision_id_bzr_to_foreign")
    wrid = f"{MP}:BzrGitMapping.revision_id_foreign_to_bzr/revision_id_bzr_to_foreign"
    shas = [b"a" * 40, b"0123456789abcdef0123456789abcdef01234567", b"f" * 40]
    badr, ok5 = [], True
    try:
        for q, pre in sorted(prefixes.items()):
            for sha in shas:
                it45.steps = 0
                cls_ = Obj(q, revid_prefix=pre)
                rid = it45.call(ff, {"cls": cls_, "git_rev_id": sha})
                try:
                    back = it45.call(fb, {"cls": cls_, "bzr_rev_id": rid})
                except Raised as r:
                    back = ("raises " + r.name,)
                got = back[0] if isinstance(back, tuple) else back
                if got != sha or not (isinstance(rid, bytes) and rid.startswith(pre + b":")):
                    badr.append((q, sha, rid, got))
        others = {q: p_ for q, p_ in prefixes.items()}
        clash = [(a, b) for a in others for b in others if a < b and (others[a] + b":").startswith(others[b] + b":")]
    except (Raised, Unsupported) as ex:
        ok5 = False
        raise AnalysisError(f"{wrid}: not evaluable by the abstract interpreter ({ex}) — hand-confirmed evaluable on the pinned tree, so the rule cannot be decided on this one")
    if ok5:
        ctx.fact(len(prefixes) * len(shas))
        ctx.check("R5-revid-roundtrip-table", wrid, not badr and not clash, f"revision_id_bzr_to_foreign(revision_id_foreign_to_bzr(sha)) gives the sha back under every mapping prefix {sorted(p_.decode() for p_ in prefixes.values())}, and no prefix is a prefix of another", construct=str((badr[:2], clash)), message=f"git shas do not survive the revision-id mapping: {badr[:2]} {clash}")

    # ---- R3 -----------------------------------------------------------------
    from ..astutil import bind_roles, canonicalise

    fw = repo.func(UR, "git_url_to_bzr_url")
    fw = canonicalise(fw, bind_roles(fw, {"params": ("recv_arg", "join_segment_parameters", 1)}, f"{UR}:git_url_to_bzr_url"))
    wkeys = set()
    for n in walk_own(fw):
        if isinstance(n, ast.Subscript) and isinstance(n.ctx, ast.Store) and norm(n.value) == "params" and isinstance(n.slice, ast.Constant):
            wkeys.add(n.slice.value)
    rf = RustFile(repo, RS)
    body = rf.fn_body("bzr_url_to_git_url")
    rkeys = {}
    for m in re.finditer(r"let\s+(\w+)\s*=\s*target_params\s*\.get\(\s*(§\d+§)\s*\)", body):
        rkeys[m.group(1)] = rf.lit(m.group(2))
    where = f"{RS}:bzr_url_to_git_url"
    # values: what the writer percent-encodes the reader must decode
    enc = set()
    for n in walk_own(fw):
        if isinstance(n, ast.Assign) and isinstance(n.targets[0], ast.Subscript) and norm(n.targets[0].value) == "params" and isinstance(n.targets[0].slice, ast.Constant):
            if any(isinstance(c, ast.Call) and (call_attr(c) or "") in ("quote_from_bytes", "escape", "quote") for c in ast.walk(n.value)):
                enc.add(n.targets[0].slice.value)
    dec = set()
    for m in re.finditer(r"let\s+(\w+)\s*=\s*target_params\s*\.get\(\s*(§\d+§)\s*\)([^;]*);", body):
        if re.search(r"\b(unescape|unquote|percent_decode\w*)\s*\(", m.group(3)):
            dec.add(rf.lit(m.group(2)))
    for k in sorted(enc | dec):
        ctx.check("url-value-encoding", where, (k in enc) == (k in dec), f"parameter {k!r}: percent-encoded by the writer and decoded by the reader", construct=f"encoded {sorted(enc)} decoded {sorted(dec)}", message=f"URL parameter {k!r} is " + ("percent-encoded by git_url_to_bzr_url but not decoded by bzr_url_to_git_url: a branch or ref containing '/' (or any escaped character) comes back as 'a%2Fb'" if k in enc else "decoded by the reader although the writer stores it raw"))
    ctx.check("url-keys", where, bool(wkeys) and set(rkeys.values()) == wkeys, f"keys written by git_url_to_bzr_url {sorted(wkeys)} == keys read by bzr_url_to_git_url {sorted(rkeys.values())}", construct=f"reader {rkeys}", message=f"URL segment-parameter keys disagree: Python writes {sorted(wkeys)}, Rust reads {sorted(rkeys.values())} — a URL written with a key the reader does not know loses that component")
    order = []
    k = body.find("Ok((")
    if k >= 0:
        depth, cur, j = 0, [], k + 4
        while j < len(body):
            ch = body[j]
            if ch in "([{":
                depth += 1
            elif ch in ")]}":
                if depth == 0:
                    break
                depth -= 1
            if ch == "," and depth == 0:
                order.append("".join(cur).strip())
                cur = []
            else:
                cur.append(ch)
            j += 1
        order.append("".join(cur).strip())
    want_order = None
    if len(order) == 3:
        want_order = [rkeys.get(order[1]), rkeys.get(order[2])]
    ctx.check("url-result-order", where, want_order == ["branch", "ref"] or (want_order is not None and want_order[0] == "branch"), f"result tuple is (url, <branch>, <ref>): {order} with keys {want_order}", construct=str(order), message="result order of bzr_url_to_git_url no longer matches (url, branch, ref) unpacked by GitBranch.set_parent")
    fsp = repo.func("breezy/git/branch.py", "GitBranch.set_parent")
    unp = [norm(n.targets[0]) for n in walk_own(fsp) if isinstance(n, ast.Assign) and isinstance(n.value, ast.Call) and call_attr(n.value) == "bzr_url_to_git_url"]
    # the unpacked (url, branch, ref) are used as such: `branch` goes through branch_name_to_ref, `ref` is stored raw
    tup = [n.targets[0] for n in walk_own(fsp) if isinstance(n, ast.Assign) and isinstance(n.value, ast.Call) and call_attr(n.value) == "bzr_url_to_git_url" and isinstance(n.targets[0], ast.Tuple) and len(n.targets[0].elts) == 3]
    ok_unp = len(tup) == 1
    if ok_unp:
        _u, _b, _r = (norm(e) for e in tup[0].elts)
        ok_unp = any(norm(c.func) == "branch_name_to_ref" and [norm(a) for a in c.args] == [_b] for c in calls_in(fsp)) and any(call_attr(c) == "set" and len(c.args) == 3 and norm(c.args[2]) == _r for c in calls_in(fsp)) and any(norm(c.func) == "urlutils.relative_url" and norm(c.args[-1]) == _u for c in calls_in(fsp))
    ctx.check("url-result-order", "breezy/git/branch.py:GitBranch.set_parent", ok_unp, f"set_parent unpacks (url, branch, ref) and uses the 2nd as a branch name, the 3rd as a raw ref: {unp}")
    # ---- R4: the parent location is written to and read from the same git config entries -----------------------
    GB = "breezy/git/branch.py"

    def cfg_accesses(fn, meth, bound=None, depth=0):
        """{(normalised section, key)} of cs.<meth>(section, key, ...) calls in fn and, one level down, in the GitBranch
        helpers it calls.  Locals bound from the remote-name helpers and `self.name.encode(...)` are replaced by role
        markers so that writer and reader can be compared; a helper's parameters are bound to the caller's arguments
        (or their defaults); a section held in a local is resolved through its (single) assignment."""
        bound = dict(bound or {})
        local = {}
        for s_ in walk_own(fn):
            if isinstance(s_, ast.Assign) and len(s_.targets) == 1 and isinstance(s_.targets[0], ast.Name):
                nm = s_.targets[0].id
                if isinstance(s_.value, ast.Call) and call_attr(s_.value) in ("_get_origin", "_get_push_origin"):
                    bound[nm] = f"<remote:{call_attr(s_.value)}>"
                else:
                    local.setdefault(nm, []).append(s_.value)

        def atom(e):
            t = norm(e)
            if isinstance(e, ast.Constant):
                return e.value.decode() if isinstance(e.value, bytes) else str(e.value)
            if isinstance(e, ast.Name) and e.id in bound:
                return bound[e.id]
            if t.startswith("self.name.encode("):
                return "<branch-name>"
            return t

        def section(e):
            if isinstance(e, ast.Name) and len(local.get(e.id, [])) == 1:
                e = local[e.id][0]
            if isinstance(e, ast.Tuple):
                return tuple(atom(x) for x in e.elts)
            return (norm(e),)

        out = set()
        for c in calls_in(fn):
            if call_attr(c) == meth and len(c.args) >= 2 and isinstance(c.args[1], ast.Constant) and (call_recv(c) or "") in ("cs", "config", "self._config") or (call_attr(c) == meth and len(c.args) >= 2 and isinstance(c.args[1], ast.Constant) and isinstance(c.args[0], (ast.Tuple, ast.Name))):
                k = c.args[1].value
                out.add((section(c.args[0]), k.decode() if isinstance(k, bytes) else str(k)))
            elif depth == 0 and call_recv(c) in ("self", "cls", "GitBranch") and call_attr(c) not in ("_get_origin", "_get_push_origin"):
                h = repo.resolve_method(GB, "GitBranch", call_attr(c))
                if h is None:
                    continue
                hf = h[2]
                params = [a.arg for a in hf.args.args if a.arg not in ("self", "cls")]
                defaults = dict(zip([a.arg for a in hf.args.args][len(hf.args.args) - len(hf.args.defaults):], hf.args.defaults))
                b2 = {}
                for i_, pn in enumerate(params):
                    if i_ < len(c.args):
                        b2[pn] = atom(c.args[i_])
                    elif pn in {k_.arg for k_ in c.keywords}:
                        b2[pn] = atom([k_.value for k_ in c.keywords if k_.arg == pn][0])
                    elif pn in defaults:
                        b2[pn] = atom(defaults[pn])
                out |= cfg_accesses(hf, meth, b2, depth + 1)
        return out

    wr = cfg_accesses(repo.func(GB, "GitBranch.set_parent"), "set")
    rd = cfg_accesses(repo.func(GB, "GitBranch._get_related_merge_branch"), "get")
    ctx.require(len(wr) >= 2 and len(rd) >= 2, f"{GB}: config accesses of set_parent / _get_related_merge_branch not found ({sorted(wr)} / {sorted(rd)})")
    for sec, key in sorted(rd):
        ctx.check("parent-config-keys", f"{GB}:GitBranch._get_related_merge_branch[{' '.join(sec)}.{key}]", (sec, key) in wr, f"get_parent reads [{' '.join(sec)}] {key}, which set_parent writes", construct=f"read [{' '.join(sec)}] {key}; written {sorted(wr)}", message=f"get_parent reads the git config entry [{' '.join(sec)}] {key} but set_parent writes {sorted(' '.join(s_) + '.' + k for s_, k in wr)}: the parent location (or its branch/ref part) stored by set_parent is not what is read back")
    fpl = repo.func(GB, "GitBranch._get_parent_location")
    ctx.check("parent-config-keys", f"{GB}:GitBranch._get_parent_location", any(call_attr(c) == "_get_related_merge_branch" for c in calls_in(fpl)), "get_parent goes through _get_related_merge_branch")
    ctx.sample({"escape_rows": len(rows), "url_keys_written": sorted(wkeys), "url_keys_read": rkeys})
    # the parent is read from the file each time: git has no lock on its config, other handles and git itself rewrite it
    TG = "breezy/git/transportgit.py"
    for fname in ("TransportRepo.get_config", "TransportRepo.get_config_stack"):
        f_ = repo.func(TG, fname)
        memo = sorted({norm(t) for a in walk_own(f_) if isinstance(a, (ast.Assign, ast.AugAssign)) for t in (a.targets if isinstance(a, ast.Assign) else [a.target]) if norm(t).startswith("self.")} | {norm(r_.value) for r_ in walk_own(f_) if isinstance(r_, ast.Return) and r_.value is not None and isinstance(r_.value, ast.Attribute) and norm(r_.value).startswith("self.")})
        reads = any(call_attr(c) in ("get", "get_bytes") and "transport" in (call_recv(c) or "") for c in calls_in(f_)) or any(norm(c.func) == "self.get_config" for c in calls_in(f_))
        ctx.check("parent-config-read-fresh", f"{TG}:{fname}", reads and not memo, f"{fname.split('.')[1]} reads the config file on every call and keeps no parsed copy on the repository object", construct=str(memo), message=f"{fname} keeps the parsed git configuration on the object ({memo}): a parent location written through another handle of the same branch, or by git itself, is never seen by this handle again (not even under a new lock) — the parent that was set is not what is read back")
    # ---- fourth round: the ref= URL parameter is written and read with the byte-exact codec pair ------------------------
    GD = "breezy/git/dir.py"
    fw = repo.func(UR, "git_url_to_bzr_url")
    wcalls = [s_.value for s_ in walk_own(fw) if isinstance(s_, ast.Assign) and len(s_.targets) == 1 and isinstance(s_.targets[0], ast.Subscript) and const_value(s_.targets[0].slice) == "ref"]
    ctx.require(len(wcalls) == 1 and isinstance(wcalls[0], ast.Call), f"{UR}:git_url_to_bzr_url: the assignment of the 'ref' URL parameter was not found")
    wname = norm(wcalls[0].func).split(".")[-1]
    fr = repo.func(GD, "GitDir._get_selected_ref")
    gets = [s_ for s_ in walk_own(fr) if isinstance(s_, ast.Assign) and len(s_.targets) == 1 and isinstance(s_.targets[0], ast.Name) and isinstance(s_.value, ast.Call) and call_attr(s_.value) == "get" and s_.value.args and const_value(s_.value.args[0]) == "ref"]
    ctx.require(len(gets) == 1, f"{GD}:GitDir._get_selected_ref: the read of the 'ref' segment parameter was not found")
    rvar = gets[0].targets[0].id
    rets = [r_ for r_ in walk_own(fr) if isinstance(r_, ast.Return) and r_.value is not None and r_.lineno > gets[0].lineno and any(isinstance(n_, ast.Name) and n_.id == rvar for n_ in ast.walk(r_.value))]
    ctx.require(bool(rets), f"{GD}:GitDir._get_selected_ref: no return of the 'ref' segment parameter found")
    _PAIR = {"quote_from_bytes": "unquote_to_bytes"}
    for r_ in rets:
        rname = norm(r_.value.func).split(".")[-1] if isinstance(r_.value, ast.Call) else norm(r_.value)
        okp = wname in _PAIR and isinstance(r_.value, ast.Call) and rname == _PAIR[wname] and len(r_.value.args) == 1 and norm(r_.value.args[0]) == rvar
        ctx.check("R3b-ref-parameter-codec-pair", f"{GD}:GitDir._get_selected_ref", okp, f"the ,ref= URL parameter written with {wname}() is read back with its byte-exact inverse", construct=norm(r_.value), message=f"the ,ref= parameter is written by git_url_to_bzr_url with {wname}() (percent-encoding of the raw bytes) but GitDir._get_selected_ref returns `{norm(r_.value)}`: a ref name that is not valid UTF-8 (git allows any bytes) no longer comes back as the bytes it was — the URL of such a branch opens a different (or no) ref")
    # ---- fourth round: the repository-level sha -> revid lookup keeps the null pair of the mapping -----------------------
    from ..cfg import build_cfg as _bcfg

    GRP = "breezy/git/repository.py"
    fl = repo.func(GRP, "LocalGitRepository.lookup_foreign_revision_id")
    shap = fl.args.args[1].arg
    g_ = _bcfg(fl)
    g0 = g_.assume({f"{shap} == ZERO_SHA": True})
    store = set(g_.find(lambda n: n.ast is not None and any(call_name(c) == "peel_sha" or "object_store" in norm(c) or call_attr(c) == "get_revision_id" for c in n.calls())))
    ctx.require(bool(store), f"{GRP}:LocalGitRepository.lookup_foreign_revision_id: the object-store lookup was not found")
    hit = sorted(g0.reachable_from_entry() & store)
    nullret = [n for n in g0.reachable_from_entry() if isinstance(g_.nodes[n].ast, ast.Return) and g_.nodes[n].ast.value is not None and norm(g_.nodes[n].ast.value).split(".")[-1] == "NULL_REVISION"]
    ctx.check("R5b-null-sha-short-circuits", f"{GRP}:LocalGitRepository.lookup_foreign_revision_id", not hit and bool(nullret), "for the null sha the lookup answers NULL_REVISION (the mapping's null pair) without consulting the object store", construct=g_.nodes[hit[0]].text() if hit else "", message=f"lookup_foreign_revision_id no longer answers the null sha itself: `{g_.nodes[hit[0]].text() if hit else 'no return of NULL_REVISION'}` is reached with ZERO_SHA, which names no object — the lookup raises KeyError where mapping.revision_id_foreign_to_bzr(ZERO_SHA) is NULL_REVISION; sha -> revid -> sha no longer holds for the null pair (a deleted ref, an unborn branch)")


MUTANTS = [
    Mutant("null sha looked up in the object store first", "breezy/git/repository.py", "        if foreign_revid == ZERO_SHA:\n            return _mod_revision.NULL_REVISION\n        _unpeeled, peeled = peel_sha(self._git.object_store, foreign_revid)\n", "        _unpeeled, peeled = peel_sha(self._git.object_store, foreign_revid)\n        if foreign_revid == ZERO_SHA:\n            return _mod_revision.NULL_REVISION\n", expect="R5b-null-sha-short-circuits"),
    Mutant("ref parameter read back without unquoting", "breezy/git/dir.py", "            return urlutils.unquote_to_bytes(ref)\n", "            return ref.encode(\"utf-8\")\n", expect="R3b-ref-parameter-codec-pair"),
    Mutant("git paths decoded with the locale's codec", MP, '    return path.decode("utf-8", "surrogateescape")\n', '    import os\n\n    return os.fsdecode(path)\n', expect="R4a-path-codec-pair"),
    Mutant("parse_file_id forgets to unescape", MP, "        return decode_git_path(unescape_file_id(file_id[len(FILE_ID_PREFIX) :]))\n", "        return decode_git_path(file_id[len(FILE_ID_PREFIX) :])\n", expect="R4-fileid-roundtrip-table"),
    Mutant("revision id written with another separator", MP, "        return b\"%s:%s\" % (cls.revid_prefix, git_rev_id)\n", "        return b\"%s-%s\" % (cls.revid_prefix, git_rev_id)\n", expect="R5-revid-roundtrip-table"),
    Mutant("neutral: root id test written the other way round", MP, "        if path == b\"\":\n            return ROOT_ID\n", "        if not path:\n            return ROOT_ID\n", neutral=True),
    Mutant("writer escapes newline, reader does not know the code", MP, "    file_id = file_id.replace(b\"\\x0c\", b\"_c\")\n", "    file_id = file_id.replace(b\"\\x0c\", b\"_c\")\n    file_id = file_id.replace(b\"\\n\", b\"_n\")\n", expect="R2-roundtrip-table"),
    Mutant("rust reader returns the branch parameter still percent-encoded", RS, ".get(\"branch\")\n        .map(|s| dromedary::urlutils::unescape(s))\n        .transpose()?;", ".get(\"branch\")\n        .map(|s| s.to_string());", expect="url-value-encoding"),
    Mutant("set_parent writes under the push remote", "breezy/git/branch.py", "        cs = self.repository._git.get_config()\n        remote = self._get_origin(cs)", "        cs = self.repository._git.get_config()\n        remote = self._get_push_origin(cs)", expect="parent-config-keys"),
    Mutant("tag reader uses the branch prefix", RF, "    if ref.startswith(LOCAL_TAG_PREFIX):\n        return ref[len(LOCAL_TAG_PREFIX) :].decode(\"utf-8\")", "    if ref.startswith(LOCAL_TAG_PREFIX):\n        return ref[len(LOCAL_BRANCH_PREFIX) :].decode(\"utf-8\")", expect="R1-prefix-pair"),
    Mutant("HEAD no longer maps back to the empty name", RF, "    if ref == b\"HEAD\":\n        return \"\"\n", "", expect="R1-head"),
    Mutant("the _c escape arm dropped", MP, "            elif file_id[i + 1 : i + 2] == b\"c\":\n                ret.append(b\"\\x0c\"[0])\n", "", expect="R2-roundtrip-table"),
    Mutant("escape char no longer escaped first", MP, "    file_id = file_id.replace(b\"_\", b\"__\")\n    file_id = file_id.replace(b\" \", b\"_s\")\n", "    file_id = file_id.replace(b\" \", b\"_s\")\n    file_id = file_id.replace(b\"_\", b\"__\")\n", expect="R2-roundtrip-table"),
    Mutant("writer key renamed on one side only", UR, "            params[\"ref\"] = urlutils.quote_from_bytes(ref, safe=\"\")", "            params[\"gitref\"] = urlutils.quote_from_bytes(ref, safe=\"\")", expect="url-keys"),
    Mutant("rust result order swapped", RS, "Ok((target_url.to_string(), branch, ref_))", "Ok((target_url.to_string(), ref_, branch))", expect="url-result-order"),
    Mutant("neutral: len(PREFIX) hoisted into a local", RF, "    if ref.startswith(LOCAL_TAG_PREFIX):\n        return ref[len(LOCAL_TAG_PREFIX) :].decode(\"utf-8\")", "    if ref.startswith(LOCAL_TAG_PREFIX):\n        return ref[len(LOCAL_TAG_PREFIX) : len(ref)].decode(\"utf-8\")", neutral=True),
]
