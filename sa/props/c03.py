"""C03 — fetch copies history completely and faithfully: stream-kind tables, write-group pairing, missing-keys gate."""

import ast

from ..astutil import call_attr, call_recv, calls_in, const_value, handler_is_catch_all, norm, walk_own
from ..cfg import build_cfg
from ..rules import calling, fn_cfg, k2_unreachable, need
from ..selftest import Mutant

ID = "C03"
TECHNIQUE = "stream-kind writer/reader table (K6/K7), write-group pairing on all exits with the two-layer abort rule (K3), missing-keys gate (K2) (ast)"
FLOOR = 22
VF = "breezy/bzr/vf_repository.py"
GC = "breezy/bzr/groupcompress_repo.py"
KP = "breezy/bzr/knitpack_repo.py"
SR = "breezy/bzr/smart/repository.py"
RM = "breezy/bzr/remote.py"
EXPLANATION = """
R1 (K6/K7 stream-kind table) every substream kind yielded by a stream source (any class named *StreamSource in
   vf_repository.py, groupcompress_repo.py, knitpack_repo.py: tuples ("kind", stream) in yield statements / returned
   lists) is dispatched by StreamSink.insert_stream_without_locking, whose else-arm raises on unknown kinds — a kind
   produced on one side only makes some source/target pair fail or drop data.
R2 (K3) write-group pairing in the functions that start *and* end a write group (StreamSink.insert_stream,
   InterDifferingSerializer._fetch_all_revisions, smart-server insert_stream handlers): after start_write_group /
   resume_write_group every normal exit passes commit_write_group, suspend_write_group or abort_write_group, and every
   exception edge is covered by an explicit abort_write_group handler (layer 1) or by a write-lock scope of the same
   function whose release aborts the group (layer 2, C06-R4). Start sites that hand the group to another owner are
   listed as information.
R3 (K2) StreamSink.insert_stream: commit_write_group is unreachable while missing_keys is truthy (suspend and return the
   keys instead); missing_keys is the result of insert_stream_without_locking, which unions
   get_missing_parent_inventories() with every versioned file's get_missing_compression_parent_keys() and returns it.
R6 fetch.py:_parent_keys_for_root_version leaves a parent out of the synthesised root text's parents only for
   NULL_REVISION or after a lookup failed (no `continue` keyed on the map's None marker). Added from a third-round seed.
R7 (third round) StreamSource._stream_invs_as_deltas: the basis id handed to delta_to_lines is assigned only next to the delta it
   belongs to — the loop's own parent id with make_inventory_delta(inv, <inventory looked up under that id>), or NULL_REVISION with the
   null inventory.
R8 (fourth round) BzrDir.clone_on_transport builds a PendingAncestryResult only under `result_repo.user_url == result.user_url`.
Does not decide: completeness of search_missing_revision_ids, CHK filtering, testament equality.
"""
ENDS = {"commit_write_group", "suspend_write_group", "abort_write_group"}
STARTS = {"start_write_group", "resume_write_group"}


def kinds_yielded(fn):
    out = set()
    for n in walk_own(fn):
        vals = []
        if isinstance(n, (ast.Yield,)) and n.value is not None:
            vals = [n.value]
        elif isinstance(n, ast.Return) and isinstance(n.value, (ast.List, ast.Tuple)):
            vals = list(n.value.elts)
        elif isinstance(n, ast.Call) and call_attr(n) == "append" and n.args:
            vals = [n.args[0]]
        for v in vals:
            if isinstance(v, ast.Tuple) and len(v.elts) == 2 and isinstance(v.elts[0], ast.Constant) and isinstance(v.elts[0].value, str):
                out.add(v.elts[0].value)
    return out


def _blocks(fn):
    """All statement lists (blocks) of a function, recursively."""
    out = []

    def visit(stmts):
        out.append(stmts)
        for s in stmts:
            for fld in ("body", "orelse", "finalbody"):
                sub = getattr(s, fld, None)
                if isinstance(sub, list) and sub and isinstance(sub[0], ast.stmt) and not isinstance(s, (ast.FunctionDef, ast.ClassDef)):
                    visit(sub)
            if isinstance(s, ast.Try):
                for h in s.handlers:
                    visit(h.body)

    visit(fn.body)
    return out


def run(ctx):
    repo = ctx.repo
    # ---- R1 -----------------------------------------------------------------
    sink = repo.func(VF, "StreamSink.insert_stream_without_locking")
    dispatched = set()
    from ..astutil import loop_targets, one

    kind_var = one(loop_targets(sink, lambda t, n: t == "stream"), "loop over the incoming stream", VF)[0]
    for n in walk_own(sink):
        if isinstance(n, ast.Compare) and norm(n.left) == kind_var and isinstance(n.ops[0], ast.Eq) and isinstance(n.comparators[0], ast.Constant):
            dispatched.add(n.comparators[0].value)
    where = f"{VF}:StreamSink.insert_stream_without_locking"
    ctx.check("R1-sink-rejects-unknown", where, len(dispatched) >= 6 and any(isinstance(n, ast.Raise) and "AssertionError" in norm(n) for n in walk_own(sink)), f"the sink dispatches {sorted(dispatched)} and raises on anything else")
    n_src = 0
    produced_all = set()
    for rel in (VF, GC, KP):
        for q, fn in repo.module(rel).functions().items():
            if "." in q and "StreamSource" in q.split(".")[0]:
                ks = kinds_yielded(fn)
                if ks:
                    n_src += 1
                    produced_all |= ks
                    ctx.check("R1-kinds-dispatched", f"{rel}:{q}", ks <= dispatched, f"kinds produced {sorted(ks)} are dispatched by the sink", construct=str(sorted(ks - dispatched)), message=f"substream kind(s) {sorted(ks - dispatched)} are produced by {q} but not handled by StreamSink.insert_stream_without_locking")
    ctx.require(n_src >= 5, f"only {n_src} stream-source functions yielding kinds found")
    ctx.check("R1-all-kinds-produced", VF, dispatched <= produced_all | {"inventory-deltas"}, f"every dispatched kind has a producer ({sorted(produced_all)})", construct=str(sorted(dispatched - produced_all)))
    ctx.sample({"dispatched": sorted(dispatched), "produced": sorted(produced_all)})

    # ---- R2 -----------------------------------------------------------------
    n_paired = 0
    handoffs = []
    for rel in [VF, GC, KP, SR, RM, "breezy/bzr/fetch.py", "breezy/bzr/reconcile.py"]:
        if not repo.exists(rel):
            continue
        for q, fn in repo.module(rel).functions().items():
            cs = calls_in(fn)
            starts = [c for c in cs if call_attr(c) in STARTS and not (call_recv(c) or "").startswith("self._real_repository")]
            ends = [c for c in cs if call_attr(c) in ENDS]
            if not starts:
                continue
            if q.split(".")[-1] in STARTS or q.split(".")[-1] in ("_resume_write_group", "_start_write_group"):
                continue
            where = f"{rel}:{q}"
            if not [c for c in ends if call_attr(c) != "abort_write_group"]:
                handoffs.append(where)
                continue
            n_paired += 1
            g = build_cfg(fn)
            ctx.fact(len(g.nodes))
            s_nodes = calling(g, attr=STARTS)
            e_nodes = calling(g, attr=ENDS)
            gn = g.without_exc_edges()
            ok, w = gn.always_after(s_nodes, e_nodes, exits=[g.exit])
            ctx.check("R2-group-ended-on-normal-exit", where, ok, "after start/resume_write_group every normal exit passes commit/suspend/abort_write_group", message="a write group can be left open on a normal return: data is neither committed nor aborted", witness=g.show_path(w) if w else None)
            # exception edges: layer 1 = reaches an abort handler; layer 2 = lock scope in this function
            aborts = calling(g, attr="abort_write_group")
            lock_scope = any(n.kind == "with_enter" and ("lock_write" in norm(n.ast.context_expr)) for n in g.nodes)
            between = [n.id for n in g.nodes if n.id in g.reach(s_nodes) and n.kind in ("stmt", "test", "for") and any(l == "X" for (_, l) in g.succ[n.id]) and n.id not in aborts and (set(e_nodes) & gn.reach([n.id]))]
            unc = []
            for n in between:
                r = g.reach([b for (b, l) in g.succ[n] if l == "X"], avoid=aborts, include_src=True)
                if g.raise_exit in r:
                    unc.append(n)
            if unc and lock_scope:
                ctx.info("R2", where, f"{len(unc)} fallible statement(s) without explicit abort_write_group handler; covered by the write-lock scope (layer 2)")
            ctx.check("R2-abort-two-layer", where, not unc or lock_scope, f"every failure inside the write group reaches abort_write_group or happens under this function's write-lock scope ({len(between)} fallible statements)", construct=g.nodes[unc[0]].text() if unc else "", message="a failure inside the write group neither reaches abort_write_group nor happens under a write lock taken in this function")
    ctx.require(n_paired >= 3, f"only {n_paired} functions that start and end a write group found (hand-confirmed: insert_stream, _fetch_all_revisions, smart handlers)")
    ctx.extra["write_group_handoffs"] = handoffs

    # ---- R3 -----------------------------------------------------------------
    fn, g, where = fn_cfg(ctx, VF, "StreamSink.insert_stream")
    commit = need(where, calling(g, attr="commit_write_group"), "commit_write_group()")
    susp = need(where, calling(g, attr="suspend_write_group"), "suspend_write_group()")
    mk = [norm(s.targets[0]) for s in walk_own(fn) if isinstance(s, ast.Assign) and isinstance(s.value, ast.Call) and call_attr(s.value) == "insert_stream_without_locking"]
    ctx.check("R3-missing-keys-source", where, len(mk) == 1, "the result of insert_stream_without_locking is kept")
    if mk:
        k2_unreachable(ctx, "R3-missing-keys-gate", where, g, {mk[0]: True}, commit, "with missing keys the write group is not committed")
        k2_unreachable(ctx, "R3-missing-keys-gate", where, g, {mk[0]: False}, susp, "without missing keys the write group is not left suspended")
        rets = [n for n in g.nodes if n.kind == "stmt" and isinstance(n.ast, ast.Return) and n.id in g.reach(susp, include_src=True)]
        ctx.check("R3-missing-keys-returned", where, any(mk[0] in norm(r.ast.value) for r in rets), "the missing keys are returned to the caller together with the resume tokens")
    f2 = repo.func(VF, "StreamSink.insert_stream_without_locking")
    w2 = f"{VF}:StreamSink.insert_stream_without_locking"
    src = [norm(s.targets[0]) for s in walk_own(f2) if isinstance(s, ast.Assign) and isinstance(s.value, ast.Call) and call_attr(s.value) == "get_missing_parent_inventories"]
    upd = [c for c in calls_in(f2) if call_attr(c) == "update" and src and call_recv(c) == src[0] and "get_missing_compression_parent_keys" in norm(c)]
    rets = [norm(r.value) for r in walk_own(f2) if isinstance(r, ast.Return)]
    ctx.check("R3-missing-keys-computed", w2, len(src) == 1 and bool(upd) and rets and all(r == src[0] for r in rets), "missing keys = missing parent inventories ∪ missing compression parents, and that set is what is returned", construct=f"{src} {rets}", message="insert_stream_without_locking no longer reports both missing parent inventories and missing compression parents")
    # ---- R4: (basis, delta) handed to the delta serialiser are chosen together -------------
    f4 = repo.func(VF, "StreamSource._stream_invs_as_deltas")
    w4 = f"{VF}:StreamSource._stream_invs_as_deltas"
    ser = [c for c in calls_in(f4) if call_attr(c) == "delta_to_lines"]
    ctx.require(len(ser) == 1 and len(ser[0].args) == 3, f"{w4}: delta_to_lines(basis, new, delta) call not found")
    bname, dname = norm(ser[0].args[0]), norm(ser[0].args[2])
    blocks = _blocks(f4)
    bad = []
    n_pairs = 0
    for blk in blocks:
        sets_b = [s for s in blk if isinstance(s, ast.Assign) and any(norm(t) == bname for t in s.targets)]
        sets_d = [s for s in blk if isinstance(s, ast.Assign) and any(norm(t) == dname for t in s.targets) and norm(s.value) != "None"]
        if sets_b or sets_d:
            n_pairs += 1
            if bool(sets_b) != bool(sets_d):
                bad.append("; ".join(norm(s)[:50] for s in sets_b + sets_d))
    ctx.check("R4-basis-delta-paired", w4, n_pairs >= 2 and not bad, f"every block that chooses `{dname}` also sets `{bname}` (and vice versa): the delta sent is the delta against the basis it names", construct=" | ".join(bad), message=f"`{bname}` and `{dname}` are assigned in different blocks ({' | '.join(bad)}): a record can carry the delta against one parent while naming another parent as its basis")
    vfs = set()
    for n in walk_own(f2):
        if isinstance(n, ast.For) and isinstance(n.iter, ast.Tuple):
            for e in n.iter.elts:
                if isinstance(e, ast.Tuple) and len(e.elts) == 2 and isinstance(e.elts[0], ast.Constant):
                    vfs.add(e.elts[0].value)
    ctx.check("R3-missing-keys-computed", w2, {"texts", "inventories", "revisions", "signatures", "chk_bytes"} <= vfs, f"compression parents are checked for {sorted(vfs)}")

    # ---- R5: the 'same repository, nothing to fetch' shortcut needs equal fallback lists, lengths included -----------
    for rel_, cls_ in (("breezy/repository.py", "Repository"), ("breezy/bzr/remote.py", "RemoteRepository")):
        fsf = repo.func(rel_, f"{cls_}._has_same_fallbacks")
        wsf = f"{rel_}:{cls_}._has_same_fallbacks"
        zips = [c for c in calls_in(fsf) if norm(c.func) == "zip"]
        strict = any(any(k.arg == "strict" and norm(k.value) == "True" for k in c.keywords) for c in zips)
        lens = [n for n in ast.walk(fsf) if isinstance(n, ast.Compare) and len(n.ops) == 1 and isinstance(n.ops[0], (ast.NotEq, ast.Eq)) and norm(n.left).startswith("len(") and norm(n.comparators[0]).startswith("len(")]
        gsf = build_cfg(fsf)
        ok = bool(zips) and (strict or bool(lens))
        if ok and lens and not strict:
            t_ = [n.id for n in gsf.nodes if n.kind == "test" and any(x is lens[0] for x in ast.walk(n.ast))]
            z_ = [n.id for n in gsf.nodes if any(norm(c.func) == "zip" for c in n.calls())]
            ok = bool(t_) and gsf.always_before(t_, z_)[0]
        ctx.check("R5-same-fallbacks-compares-lengths", wsf, ok, "the fallback lists are compared in length before they are compared pairwise with zip() (zip stops at the shorter list)", message=f"{cls_}._has_same_fallbacks compares the fallback lists with zip() only: a repository opened without its fallbacks 'has the same fallbacks' as the stacked view of the same location, so fetch() between the two takes the nothing-to-do shortcut and the revisions that live in the stacked-on repository are never copied")
    ffetch = repo.func("breezy/repository.py", "Repository.fetch")
    same = [n for n in ast.walk(ffetch) if isinstance(n, ast.If) and "has_same_location" in norm(n.test)]
    ctx.check("R5-same-fallbacks-compares-lengths", "breezy/repository.py:Repository.fetch", len(same) >= 1 and all("_has_same_fallbacks" in norm(n.test) for n in same), "Repository.fetch takes the same-location shortcut only when the fallbacks are the same too")

    # ---- R6: per-file history of the synthesised root — a parent is left out only when it cannot be loaded ----------
    # _parent_keys_for_root_version (used when non-rich-root history is fetched into a rich-root format): the map value
    # None means "outside the fetch set, look it up", not "ghost".  The loop over the revision's parents skips a parent
    # with `continue` only for NULL_REVISION; every other omission is the outcome of a revision_tree()/id lookup that
    # raised.
    FT = "breezy/bzr/fetch.py"
    fpk = repo.func(FT, "_parent_keys_for_root_version")
    wpk = f"{FT}:_parent_keys_for_root_version"
    loops6 = [l_ for l_ in walk_own(fpk) if isinstance(l_, ast.For) and any(call_attr(c) == "revision_tree" for c in calls_in(l_))]
    ctx.require(len(loops6) == 1, f"{wpk}: the loop over the revision's parents was not found")
    bad6 = []
    for n in ast.walk(loops6[0]):
        if isinstance(n, (ast.Continue, ast.Break)):
            owners = [i_ for i_ in ast.walk(loops6[0]) if isinstance(i_, ast.If) and any(x is n for b_ in (i_.body,) for s_ in b_ for x in ast.walk(s_))]
            if not any("NULL_REVISION" in norm(i_.test) for i_ in owners):
                bad6.append(f"L{n.lineno}:{type(n).__name__.lower()} under {[norm(i_.test)[:40] for i_ in owners][-1:]}")
    ctx.check("R6-root-parent-dropped-only-when-unloadable", wpk, not bad6, "a parent contributes no root-text parent only via NULL_REVISION or a failed lookup", construct="; ".join(bad6), message=f"_parent_keys_for_root_version skips a parent without looking it up ({bad6}): for a parent outside the fetch set that is seen a second time (two fetched siblings of a revision the target already has) the synthesised root text loses its parent — the per-file graph differs from a one-shot fetch and check() reports inconsistent parents")
    # ---- R7: an inventory delta record names the basis it was computed against ----------------------------------------
    fd7 = repo.func(VF, "StreamSource._stream_invs_as_deltas")
    w7 = f"{VF}:StreamSource._stream_invs_as_deltas"
    ser = [c for c in calls_in(fd7) if call_attr(c) == "delta_to_lines" and len(c.args) >= 3 and isinstance(c.args[0], ast.Name) and isinstance(c.args[2], ast.Name)]
    ctx.require(len(ser) == 1, f"{w7}: serializer.delta_to_lines(basis, new, delta) not found")
    bvar, dvar = ser[0].args[0].id, ser[0].args[2].id
    parents7 = {}
    for n_ in ast.walk(fd7):
        for ch in ast.iter_child_nodes(n_):
            parents7[id(ch)] = n_

    def _block_of(st):
        par = parents7.get(id(st))
        for fld in ("body", "orelse", "finalbody"):
            blk = getattr(par, fld, None)
            if isinstance(blk, list) and any(x is st for x in blk):
                return blk
        return []

    def _enclosing_for(st):
        cur = st
        while id(cur) in parents7:
            cur = parents7[id(cur)]
            if isinstance(cur, ast.For):
                return cur
        return None

    def _made_from(expr, scope):
        """the inventory argument B of make_inventory_delta(inv, B) behind `expr` (directly, or through a local assigned in scope)"""
        if isinstance(expr, ast.Call) and (call_attr(expr) or norm(expr.func)).split(".")[-1] == "make_inventory_delta" and len(expr.args) == 2:
            return expr.args[1]
        if isinstance(expr, ast.Name):
            srcs = [a.value for a in ast.walk(scope) if isinstance(a, ast.Assign) and any(norm(t) == expr.id for t in a.targets)]
            outs = [_made_from(v, scope) for v in srcs if not (isinstance(v, ast.Name) and v.id == expr.id)]
            if outs and all(o is not None for o in outs) and len({norm(o) for o in outs}) == 1:
                return outs[0]
        return None

    bad7, n7 = [], 0
    for a in walk_own(fd7):
        if not (isinstance(a, ast.Assign) and any(norm(t) == bvar for t in a.targets)):
            continue
        n7 += 1
        blk = _block_of(a)
        dl = [x for x in blk if isinstance(x, ast.Assign) and any(norm(t) == dvar for t in x.targets)]
        if len(dl) != 1:
            bad7.append(f"L{a.lineno}: `{norm(a)}` is not paired with one assignment of `{dvar}` in the same block")
            continue
        loop = _enclosing_for(a)
        inner_loop = loop if loop is not None and isinstance(a.value, ast.Name) and isinstance(loop.target, ast.Name) and loop.target.id == a.value.id else None
        scope = inner_loop if inner_loop is not None else fd7
        binv = _made_from(dl[0].value, scope)
        if binv is None:
            bad7.append(f"L{a.lineno}: `{norm(dl[0])}` next to `{norm(a)}` is not a make_inventory_delta(inv, <basis inventory>) result")
            continue
        if isinstance(a.value, ast.Name):
            if inner_loop is None:
                bad7.append(f"L{a.lineno}: `{norm(a)}` — the basis id is not the loop variable of the loop that computed the delta")
                continue
            x = a.value.id
            passign = [s_ for s_ in ast.walk(inner_loop) if isinstance(s_, ast.Assign) and any(norm(t) == norm(binv) for t in s_.targets)]
            def _tied(s_):
                if any(isinstance(n_, ast.Name) and n_.id == x for n_ in ast.walk(s_.value)):
                    return True
                cur = s_
                while id(cur) in parents7 and cur is not inner_loop:
                    par = parents7[id(cur)]
                    if isinstance(par, ast.If) and any(isinstance(n_, ast.Name) and n_.id == x for n_ in ast.walk(par.test)):
                        return True
                    cur = par
                return False
            if not passign or not all(_tied(s_) for s_ in passign):
                bad7.append(f"L{a.lineno}: the inventory `{norm(binv)}` the delta is made against is not looked up under `{x}`")
        elif "NULL_REVISION" in norm(a.value):
            nsrc = [s_.value for s_ in walk_own(fd7) if isinstance(s_, ast.Assign) and any(norm(t) == norm(binv) for t in s_.targets)]
            if not nsrc or not all("NULL_REVISION" in norm(v) for v in nsrc):
                bad7.append(f"L{a.lineno}: basis NULL_REVISION is paired with a delta against `{norm(binv)}`, which is not the null inventory")
        else:
            bad7.append(f"L{a.lineno}: `{norm(a)}` — the basis id is computed separately from the delta (not the loop's own parent id)")
    ctx.require(n7 >= 2, f"{w7}: assignments of the basis id not found")
    ctx.check("R7-delta-names-its-basis", w7, not bad7, f"every `{bvar} = …` sits next to `{dvar} = make_inventory_delta(inv, <inventory of that same revision>)`", construct="; ".join(bad7)[:300], message=f"_stream_invs_as_deltas can emit an inventory-delta record whose named basis is not the inventory the delta was computed against ({'; '.join(bad7)[:300]}): the receiver applies the delta to another parent's inventory and silently stores a different tree for the revision — testaments of the same revision differ between source and target")
    # ---- R8: the unconditional "copy the whole ancestry" recipe is chosen only for a repository known to be new ------------
    BD = "breezy/bzr/bzrdir.py"
    fcl = repo.func(BD, "BzrDir.clone_on_transport")
    wcl = f"{BD}:BzrDir.clone_on_transport"
    ifs8 = [n for n in ast.walk(fcl) if isinstance(n, ast.If) and any(isinstance(c, ast.Call) and (call_attr(c) or norm(c.func)).split(".")[-1] == "PendingAncestryResult" for st in n.body for c in ast.walk(st))]
    ctx.require(len(ifs8) >= 1, f"{wcl}: the branch that builds a PendingAncestryResult was not found")
    inner = ifs8[-1]
    urls = [cmp_ for cmp_ in ast.walk(inner.test) if isinstance(cmp_, ast.Compare) and isinstance(cmp_.ops[0], ast.Eq) and norm(cmp_.left).endswith(".user_url") and norm(cmp_.comparators[0]).endswith(".user_url")]
    ctx.check("R8-whole-ancestry-only-into-new-repository", wcl, bool(urls), "PendingAncestryResult (a recipe that is used as it stands, without asking what the target already holds) is chosen only when the result repository sits at the new location itself, i.e. is empty", construct=norm(inner.test)[:120], message="clone_on_transport picks the literal whole-ancestry recipe whenever the result is not stacked, also when the new branch lands inside an existing shared repository: everything the repository already holds is streamed again — fetching again no longer transfers nothing")


MUTANTS = [
    Mutant("whole-ancestry recipe also into an existing shared repository", "breezy/bzr/bzrdir.py", "                    result_repo.user_url == result.user_url\n                    and not require_stacking\n", "                    not require_stacking\n", expect="R8-whole-ancestry-only-into-new-repository"),
    Mutant("delta basis named from the unfiltered parent list", VF, "                        delta = candidate_delta\n                        basis_id = parent_id\n", "                        delta = candidate_delta\n                        basis_id = parent_ids[0]\n", expect="R7-delta-names-its-basis"),
    Mutant("None in the root-id map taken for a ghost", "breezy/bzr/fetch.py", "            parent_ids.append(parent_id)\n        else:\n            # root_id may be in the parent anyway.\n", "            parent_ids.append(parent_id)\n        elif parent_root_id is None:\n            continue\n        else:\n            # root_id may be in the parent anyway.\n", expect="R6-root-parent-dropped-only-when-unloadable"),
    Mutant("fallback lists compared with zip only", "breezy/repository.py", "        if len(my_fb) != len(other_fb):\n            return False\n", "", expect="R5-same-fallbacks-compares-lengths"),
    Mutant("source yields a kind the sink does not know", VF, "                raise AssertionError(f\"kaboom! {substream_type}\")", "                raise AssertionError(f\"kaboom! {substream_type}\")\n        if False:\n            yield (\"texts2\", None)", neutral=True, note="not in a StreamSource"),
    Mutant("sink loses the signatures arm", VF, "            elif substream_type == \"signatures\":\n                self.target_repo.signatures.insert_record_stream(substream)\n", "", expect="R1-kinds-dispatched"),
    Mutant("commit before testing missing_keys", VF, "                if missing_keys:\n                    # suspend the write group and tell the caller what we is", "                if missing_keys and not is_resume:\n                    # suspend the write group and tell the caller what we is", expect="R3-missing-keys-gate"),
    Mutant("insert_stream returns without ending the group", VF, "                hint = self.target_repo.commit_write_group()\n                dest_format = self.target_repo._format", "                if is_resume and not stream:\n                    return [], set()\n                hint = self.target_repo.commit_write_group()\n                dest_format = self.target_repo._format", expect="R2-group-ended-on-normal-exit"),
    Mutant("missing parent inventories no longer reported", VF, "        missing_keys = self.target_repo.get_missing_parent_inventories(\n            check_for_missing_texts=is_resume\n        )\n        try:", "        self.target_repo.get_missing_parent_inventories(\n            check_for_missing_texts=is_resume\n        )\n        missing_keys = set()\n        try:", expect="R3-missing-keys-computed"),
    Mutant("fetch batch: abort dropped and no lock scope", VF, "            except:\n                self.source._safe_to_return_from_cache = False\n                self.target.abort_write_group()\n                raise\n", "            except:\n                self.source._safe_to_return_from_cache = False\n                raise\n", expect="R2-abort-two-layer"),
    Mutant("neutral: explicit abort removed where the lock scope covers it", VF, "            except:\n                self.target_repo.abort_write_group(suppress_errors=True)\n                raise\n", "            except:\n                raise\n", neutral=True),
]
