"""C50 — command-line splitting: character conservation in the splitter state machine (path-sensitive K2)."""

import ast

from ..astutil import call_attr, call_recv, calls_in, const_value, norm, walk_own
from ..selftest import Mutant

ID = "C50"
TECHNIQUE = "path enumeration over the if/elif tree of every state's process() with a character-conservation obligation per path (K2) (ast)"
FLOOR = 49
CL = "breezy/cmdline.py"
EXPLANATION = """
K2, per path through each state class's process(next_char, context) (_Whitespace, _Quotes, _Backslash, _Word): the
character is either (a) appended to the token (context.token.append(next_char)), (b) pushed back for the next state
(context.seq.pushback(next_char)), or (c) consumed as syntax, which is allowed only on a path whose condition classifies
it as whitespace (_whitespace_match), a quote character (membership in allowed_quote_chars / equality with the open
quote) or a backslash (== "\\\\"). Anything appended besides next_char is the empty string (marks a quoted empty token) or
a run of backslashes whose length is computed from self.count; _Backslash.finish flushes the pending backslashes, and
every path that emits a backslash run or pushes back resets/uses the count consistently (count reset to 0 after an
emission that is followed by a return to the exit state). Every path returns a state (self, an exit state, a new state
object) or None (token finished, only on whitespace). Splitter._get_token calls finish() on the last state and joins
exactly the accumulated token pieces.
Added while testing against seeded changes: Also: module-level named literals are folded; quote membership is tested
against context.allowed_quote_chars only; whitespace ends a token exactly when context.token is non-empty and a
closing quote leaves the empty marker.
Third round: split-result-not-shared — split() carries no cache/memo decorator and returns a list literal / comprehension / list(...)
built by the call (callers edit the result in place).
Does not decide: that split() inverts the documented quoting for all strings (induction over inputs).
"""
STATES = ["_Whitespace", "_Quotes", "_Backslash", "_Word"]


def paths(stmts, conds=()):
    """Enumerate (conditions, statements executed, return node) for an if/elif/else tree without loops."""
    out = []

    def rec(stmts, conds, acc):
        for i, s in enumerate(stmts):
            if isinstance(s, ast.If):
                rest = stmts[i + 1 :]
                rec(s.body + rest, conds + ((norm(s.test), True),), list(acc))
                rec(s.orelse + rest, conds + ((norm(s.test), False),), list(acc))
                return
            if isinstance(s, ast.Return):
                out.append((conds, acc, s))
                return
            if isinstance(s, (ast.For, ast.While, ast.Try, ast.With)):
                raise ValueError(f"unsupported statement {type(s).__name__} in process()")
            acc = acc + [s]
        out.append((conds, acc, None))

    rec(list(stmts), tuple(conds), [])
    return out


def classify(conds):
    """Which syntax class the path condition assigns to next_char: set of {'ws','quote','backslash'}."""
    cls = set()
    for t, pol in conds:
        if not pol:
            continue
        if t == "_whitespace_match(next_char)":
            cls.add("ws")
        if t in ("next_char in context.allowed_quote_chars", "next_char == self.quote_char"):
            cls.add("quote")
        if t == "next_char == '\\\\'":
            cls.add("backslash")
    return cls


def run(ctx):
    from ..astutil import fold_module_constants

    repo = ctx.repo
    mtree = repo.module(CL).tree
    for st in STATES:
        fn = fold_module_constants(mtree, repo.func(CL, f"{st}.process"))
        where = f"{CL}:{st}.process"
        body = [s for s in fn.body if not (isinstance(s, ast.Expr) and isinstance(s.value, ast.Constant))]
        ps = paths(body)
        ctx.require(len(ps) >= 3, f"{where}: only {len(ps)} paths")
        for conds, stmts, ret in ps:
            desc = " and ".join(("" if pol else "not ") + t for t, pol in conds) or "always"
            appended, pushed, others = [], False, []
            for s in stmts:
                for c in calls_in(s):
                    if call_attr(c) == "append" and call_recv(c) == "context.token":
                        appended.append(c.args[0])
                    elif call_attr(c) == "pushback" and call_recv(c) == "context.seq":
                        pushed = pushed or norm(c.args[0]) == "next_char"
            kept = any(norm(a) == "next_char" for a in appended) or pushed
            syn = classify(conds)
            ctx.check("char-conserved", where, kept or bool(syn), f"[{desc}] next_char is appended, pushed back, or consumed as {sorted(syn) or '-'}", construct=desc, message=f"on the path [{desc}] the character is neither kept in the token, pushed back, nor classified as whitespace/quote/backslash: an ordinary character is lost")
            for a in appended:
                t = norm(a)
                ok = t == "next_char" or t == "''" or (isinstance(a, ast.BinOp) and isinstance(a.op, ast.Mult) and const_value(a.left) == "\\" and "self.count" in norm(a.right))
                ctx.check("nothing-invented", where, ok, f"[{desc}] appends `{t}`", construct=t, message=f"the splitter appends `{t}`, which is neither the input character, the empty string, nor a run of pending backslashes")
            ctx.check("returns-a-state", where, ret is not None and (norm(ret.value) in ("self", "self.exit_state", "None") or isinstance(ret.value, (ast.Call, ast.Name))), f"[{desc}] returns {norm(ret.value) if ret is not None else 'nothing'}", construct=desc)
            if ret is not None and norm(ret.value) == "None":
                ctx.check("token-ends-on-whitespace", where, "ws" in syn, f"[{desc}] the token ends only on whitespace", construct=desc, message=f"the token is ended on a non-whitespace path [{desc}]")
        # the set of quote characters has one source: the splitter's configured allowed_quote_chars
        for n in ast.walk(fn):
            if isinstance(n, ast.Compare) and len(n.ops) == 1 and isinstance(n.ops[0], (ast.In, ast.NotIn)) and norm(n.left) == "next_char":
                src = norm(n.comparators[0])
                ctx.check("quote-table-single-source", where, src == "context.allowed_quote_chars", f"membership of next_char is tested against context.allowed_quote_chars ({src})", construct=norm(n), message=f"{st}.process classifies quote characters with `{norm(n)}` instead of the splitter's configured allowed_quote_chars: with single quotes disabled an apostrophe is still treated as a quote in this state only, and backslashes before it are lost")
    # a token is ended by whitespace exactly when something was accumulated; a closed empty quotation leaves a marker
    fw = fold_module_constants(mtree, repo.func(CL, "_Whitespace.process"))
    ends = [p for p in paths([s_ for s_ in fw.body if not (isinstance(s_, ast.Expr) and isinstance(s_.value, ast.Constant))]) if p[2] is not None and norm(p[2].value) == "None"]
    ok = len(ends) == 1 and ("_whitespace_match(next_char)", True) in ends[0][0] and any(t in ("len(context.token) > 0", "context.token", "len(context.token) != 0", "len(context.token)") and pol for t, pol in ends[0][0])
    ctx.check("token-ends-when-nonempty", f"{CL}:_Whitespace.process", ok, "between tokens, whitespace ends the token exactly when something was accumulated in context.token", construct=str(ends[0][0]) if ends else "", message=f"_Whitespace no longer ends a token on `len(context.token) > 0` ({ends[0][0] if ends else 'no such path'}): after a backslash run returns to this state the pending unquoted token is not ended and the next argument is glued to it")
    fq = fold_module_constants(mtree, repo.func(CL, "_Quotes.process"))
    close = [p for p in paths([s_ for s_ in fq.body if not (isinstance(s_, ast.Expr) and isinstance(s_.value, ast.Constant))]) if ("next_char == self.quote_char", True) in p[0]]
    ok = len(close) == 1 and any(call_attr(c) == "append" and call_recv(c) == "context.token" and const_value(c.args[0]) == "" for s_ in close[0][1] for c in calls_in(s_)) and close[0][2] is not None and norm(close[0][2].value) == "self.exit_state"
    ctx.check("token-ends-when-nonempty", f"{CL}:_Quotes.process", ok, "closing a quotation appends the empty marker (so that \"\" is a token) and returns to the exit state", message="a closing quote no longer leaves the empty-string marker in the token: an empty quoted argument is dropped / the end-of-token test no longer sees it")
    # _Backslash bookkeeping
    fb = fold_module_constants(mtree, repo.func(CL, "_Backslash.process"))
    wb = f"{CL}:_Backslash.process"
    body = [s for s in fb.body if not (isinstance(s, ast.Expr) and isinstance(s.value, ast.Constant))]
    for conds, stmts, ret in paths(body):
        desc = " and ".join(("" if pol else "not ") + t for t, pol in conds)
        emits = any(call_attr(c) == "append" and "self.count" in norm(c) for s in stmts for c in calls_in(s))
        incr = any(isinstance(s, ast.AugAssign) and norm(s.target) == "self.count" for s in stmts)
        reset = any(isinstance(s, ast.Assign) and norm(s.targets[0]) == "self.count" and norm(s.value) == "0" for s in stmts)
        if ("next_char == '\\\\'", True) in conds:
            ctx.check("backslash-count", wb, incr and norm(ret.value) == "self", "a further backslash only increments the pending count", construct=desc)
        elif emits:
            ctx.check("backslash-count", wb, reset, f"[{desc}] the pending count is reset after the backslashes were emitted", construct=desc, message="pending backslashes are emitted without resetting the count: finish() would emit them a second time")
    quote_path = [p for p in paths(body) if ("next_char in context.allowed_quote_chars", True) in p[0]]
    halves = any("self.count // 2" in norm(c) for p in quote_path for s in p[1] for c in calls_in(s))
    odd = any(t == "self.count % 2 == 1" for p in quote_path for t, pol in p[0])
    ctx.check("backslash-count", wb, halves and odd, "before a quote, 2N(+1) backslashes yield N backslashes and the parity decides whether the quote is literal")
    ff = repo.func(CL, "_Backslash.finish")
    ctx.check("backslash-finish", f"{CL}:_Backslash.finish", any(call_attr(c) == "append" and "self.count" in norm(c) for c in calls_in(ff)) and any(isinstance(n, ast.If) and norm(n.test) == "self.count > 0" for n in walk_own(ff)), "finish() flushes the pending backslashes")
    fg = repo.func(CL, "Splitter._get_token")
    wg = f"{CL}:Splitter._get_token"
    ctx.check("token-assembly", wg, any(call_attr(c) == "finish" for c in calls_in(fg)) and any(isinstance(s, ast.AnnAssign) and norm(s.value) == "''.join(self.token)" or isinstance(s, ast.Assign) and norm(s.value) == "''.join(self.token)" for s in walk_own(fg)), "the last state is finished and the token is exactly the join of the accumulated pieces")
    loops = [n for n in walk_own(fg) if isinstance(n, ast.For)]
    ctx.check("token-assembly", wg, len(loops) == 1 and norm(loops[0].iter) == "self.seq" and any(isinstance(s, ast.Assign) and isinstance(s.value, ast.Call) and call_attr(s.value) == "process" and call_recv(s.value) == norm(s.targets[0]) and [norm(a) for a in s.value.args] == [norm(loops[0].target), "self"] for s in walk_own(loops[0])), "every character of the input sequence is fed to the current state")
    fp = repo.func(CL, "_PushbackSequence.__next__")
    ctx.check("pushback", f"{CL}:_PushbackSequence.__next__", "self._pushback_buffer.pop()" in norm(fp) and "next(self._iter)" in norm(fp), "a pushed-back character is delivered before the next input character")
    # ---- every call of split() builds its own list (callers edit the result in place) ----------------------------------
    fsp = repo.func(CL, "split")
    decos = [norm(d) for d in fsp.decorator_list]
    memo = [d for d in decos if any(w in d.lower() for w in ("cache", "memo"))]
    rets_sp = [r_ for r_ in walk_own(fsp) if isinstance(r_, ast.Return) and r_.value is not None]
    fresh = bool(rets_sp) and all(isinstance(r_.value, (ast.ListComp, ast.List)) or (isinstance(r_.value, ast.Call) and norm(r_.value.func) in ("list", "sorted")) for r_ in rets_sp)
    shared = sorted({n.id for r_ in rets_sp for n in ast.walk(r_.value) if isinstance(n, ast.Name) and n.id.isupper()})
    ctx.check("split-result-not-shared", f"{CL}:split", not memo and fresh and not shared, "split() is not memoised and returns a list built by this call", construct=str(memo or shared or [norm(r_)[:60] for r_ in rets_sp]), message=f"split() hands out a list that is shared between calls ({memo or shared or 'not a freshly built list'}): callers edit the result in place (mergetools.invoke replaces the first word, get_change_editor extends it), so the next split of the same string returns the edited list — arguments lost or invented outside the quoting syntax")

MUTANTS = [
    Mutant("split() memoised", CL, "def split(unsplit, single_quotes_allowed=True):\n", "import functools\n\n\n@functools.lru_cache(maxsize=256)\ndef split(unsplit, single_quotes_allowed=True):\n", expect="split-result-not-shared"),
    Mutant("backslash state uses a fixed quote set", CL, "            self.count += 1\n            return self\n        elif next_char in context.allowed_quote_chars:", "            self.count += 1\n            return self\n        elif next_char in \"\\\"'\":", expect="quote-table-single-source"),
    Mutant("token ended only after a quotation", CL, "            if len(context.token) > 0:\n                return None", "            if context.quoted:\n                return None", expect="token-ends-when-nonempty"),
    Mutant("neutral: backslash literal named", CL, "class _Whitespace:\n", "_BACKSLASH = \"\\\\\"\n\n\nclass _Whitespace:\n", neutral=True),
    Mutant("_Word drops an ordinary character", CL, "        elif next_char == \"\\\\\":\n            return _Backslash(self)\n        else:\n            context.token.append(next_char)\n            return self\n\n\nclass Splitter", "        elif next_char == \"\\\\\":\n            return _Backslash(self)\n        else:\n            return self\n\n\nclass Splitter", expect="char-conserved"),
    Mutant("an invented literal is appended", CL, "        elif next_char == self.quote_char:\n            context.token.append(\"\")", "        elif next_char == self.quote_char:\n            context.token.append(\" \")", expect="nothing-invented"),
    Mutant("backslash run emitted without pushback of the next char", CL, "                context.token.append(\"\\\\\" * self.count)\n                self.count = 0\n            # let exit_state handle next_char\n            context.seq.pushback(next_char)\n            return self.exit_state", "                context.token.append(\"\\\\\" * self.count)\n                self.count = 0\n            return self.exit_state", expect="char-conserved"),
    Mutant("finish no longer flushes", CL, "    def finish(self, context):", "    def finish_disabled(self, context):", expect="ANALYSIS-ERROR"),
    Mutant("count not reset after emission", CL, "            context.token.append(\"\\\\\" * (self.count // 2))", "            context.token.append(\"\\\\\" * (self.count // 2))\n            pending = self.count", neutral=True),
    Mutant("neutral: two elif arms merged with or", CL, "        if _whitespace_match(next_char):\n            return None\n        elif next_char in context.allowed_quote_chars:\n            return _Quotes(next_char, self)", "        if _whitespace_match(next_char):\n            return None\n        elif next_char in context.allowed_quote_chars:\n            new_state = _Quotes(next_char, self)\n            return new_state", neutral=True),
]
