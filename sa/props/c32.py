"""C32 — operations through a smart server match local ones: verb registry agreement only."""

import ast
import re

from ..astutil import call_attr, calls_in, const_value, norm, walk_own
from ..selftest import Mutant
from . import c31

ID = "C32"
TECHNIQUE = "client/server verb table agreement (K6) and handler class resolution through the in-repo MRO (K7) (ast)"
FLOOR = 464
RQ = c31.RQ
RM = "breezy/bzr/remote.py"
CL = "breezy/bzr/smart/client.py"
EXPLANATION = """
K6/K7, registry agreement only: (a) every verb literal the client side sends — bytes literals of the form
Class.method in breezy/bzr/remote.py and the first argument of every _call*/call* helper in remote.py and smart/client.py —
is registered in request_handlers; (b) every register_lazy(verb, module, class) names a module and class that exist in
the repository, the class derives from SmartServerRequest and defines or inherits a do() method; (c) verbs are
registered once; (d) each registration's info= flag is one of the documented kinds (read / idem / semi / semivfs /
mutate / stream), which the retry logic of the client relies on.
Added while testing against seeded changes: Also: RemoteBranch/RemoteRepository.lock_write (re)initialise _leave_lock
on every outermost lock; RemoteStreamSink.insert_stream calls target_repo.refresh_data() before reporting a successful
RPC insert.
leave-lock-only-on-success: in the smart lock handlers no failure response is reachable (exception edges included) after
leave_lock_in_place().
cache-clear-siblings-agree: RemoteBranch._clear_cached_state_of_remote_branch_only resets every own cache attribute
that _clear_cached_state resets (and calls the base class part when that one does).
fallback-forwards-parameters (third round): every Remote* method that calls the same-named method of its self._real_* object passes
all of its own parameters (directly, through a derived local, or through * / **); five tabled exceptions with reasons.
handler-lock-given-back (third round): for the five request handlers that lock and unlock one object within a request (table),
no path from the lock call to a return or a raise avoids the unlock (CFG with exception edges).
Twin coherence (from a third-round agent's observations on the unmodified tree): commit-drops-negative-cache — both commit paths of
RemoteRepository.commit_write_group reset the noted misses before returning; rpc-write-reaches-real-branch — the wrappers of
Branch.set_tags_bytes / Branch.put_config_file touch self._real_branch (or clear the cached state) after the RPC;
answer-seeded-not-dropped — every return of _get_parent_map_rpc after the NULL_REVISION seed includes it (the last two have
a known finding each).
fallback-replays-consumed-argument: a parameter that the try body of a Remote* method iterates (or hands to its *_rpc helper) and that the
UnknownSmartMethod handler passes to self._real_* is materialised before the try.
Does not decide: behavioural equivalence of remote and local operations (not applicable to static analysis).
"""
VERB_RE = re.compile(rb"^(Branch|BzrDir|BzrDirFormat|Repository|PackRepository|Transport|VersionedFileRepository)\.[A-Za-z_0-9.]+$")
CALLS = {"_call", "_call_expecting_body", "_call_with_body_bytes", "_call_with_body_bytes_expecting_body", "call", "call_expecting_body", "call_with_body_bytes", "call_with_body_bytes_expecting_body", "_call_and_read_response", "_call_determining_protocol_version"}
INFO = {"read", "idem", "semi", "semivfs", "mutate", "stream"}


def run(ctx):
    repo = ctx.repo
    regs = c31.registrations(repo)
    ctx.require(len(regs) >= 90, f"only {len(regs)} registrations found")
    verbs = {}
    for verb, mod, cname, line in regs:
        ctx.check("unique-registration", f"{RQ}:L{line}", verb not in verbs, f"verb {verb!r} registered once", construct=repr(verb))
        verbs[verb] = (mod, cname, line)
        rel = repo.rel_of_module(mod) if isinstance(mod, str) else None
        cls = repo.module(rel).get(cname) if rel else None
        ok = isinstance(cls, ast.ClassDef)
        ctx.check("handler-resolves", f"{RQ}:L{line}", ok, f"{verb!r} -> {mod}:{cname} exists", construct=f"{mod}:{cname}", message=f"verb {verb!r} is registered to {mod}:{cname}, which does not exist: the server would fail to import the handler")
        if ok:
            mro = repo.mro(rel, cname)
            ctx.check("handler-is-request", f"{rel}:{cname}", (RQ, "SmartServerRequest") in mro, f"{cname} derives from SmartServerRequest")
            has_do = any(repo.module(r).get(f"{q}.do") is not None for r, q in mro if (r, q) != (RQ, "SmartServerRequest"))
            ctx.check("handler-has-do", f"{rel}:{cname}", has_do, f"{cname} implements do()", message=f"{cname} inherits the abstract SmartServerRequest.do: the verb {verb!r} would raise NotImplementedError")
    # info flags
    for n in ast.walk(repo.module(RQ).tree):
        if isinstance(n, ast.Call) and norm(n.func) == "request_handlers.register_lazy":
            info = [const_value(k.value) for k in n.keywords if k.arg == "info"]
            ctx.check("info-flag", f"{RQ}:L{n.lineno}", len(info) == 1 and info[0] in INFO, f"info={info} is a documented kind", construct=str(info))
    # client verbs
    sent = {}
    for rel in (RM, CL):
        for q, fn in repo.module(rel).functions().items():
            for n in walk_own(fn):
                if isinstance(n, ast.Constant) and isinstance(n.value, bytes) and VERB_RE.match(n.value):
                    sent.setdefault(n.value, f"{rel}:{q}")
                if isinstance(n, ast.Call) and call_attr(n) in CALLS and n.args and isinstance(n.args[0], ast.Constant) and isinstance(n.args[0].value, bytes):
                    sent.setdefault(n.args[0].value, f"{rel}:{q}")
    ctx.require(len(sent) >= 60, f"only {len(sent)} client verbs found")
    for v, where in sorted(sent.items()):
        ctx.check("client-verb-registered", where, v in verbs, f"client verb {v!r} has a server handler", construct=repr(v), message=f"the client sends verb {v!r} but no handler is registered for it: every server answers UnknownSmartMethod and the slow fallback (or an error) is used")
    ctx.extra["verbs_registered"] = len(verbs)
    ctx.extra["verbs_sent_by_client"] = len(sent)
    ctx.sample({"registered_not_sent_from_remote_py": sorted(v.decode() for v in set(verbs) - set(sent))[:12]})
    # ---- client-side state that must track the server's: lock release mode and the VFS view after an RPC insert ---------
    from ..rules import calling, fn_cfg, k1_before, need
    from ..cfg import assigns_to

    for cname in ("RemoteBranch", "RemoteRepository"):
        fn, g, where = fn_cfg(ctx, RM, f"{cname}.lock_write")
        first = [n.id for n in g.nodes if n.kind == "stmt" and isinstance(n.ast, ast.Assign) and norm(n.ast.targets[0]) == "self._lock_count" and norm(n.ast.value) == "1"]
        need(where, first, "self._lock_count = 1 (outermost lock)")
        setl = g.find(assigns_to("self._leave_lock"))
        ctx.check("lock-release-mode-reinitialised", where, bool(setl), "lock_write sets self._leave_lock")
        k1_before(ctx, "lock-release-mode-reinitialised", where, g, setl, first, "every outermost lock_write (re)initialises whether unlock releases the server-side lock (True only for a lock taken over by token)")
        vals = sorted({norm(g.nodes[i].ast.value) for i in setl})
        ctx.check("lock-release-mode-reinitialised", where, vals == ["False", "True"], "the flag is True for a token lock and False otherwise", construct=str(vals), message=f"{cname}.lock_write leaves _leave_lock at its previous value on some path ({vals}): a handle that once used a token never releases the server-side lock again — the remote branch stays locked where the local one is unlocked")
    fn, g, where = fn_cfg(ctx, RM, "RemoteStreamSink.insert_stream")
    ok_rets = [n.id for n in g.nodes if n.kind == "stmt" and isinstance(n.ast, ast.Return) and norm(n.ast.value) == "([], set())"]
    need(where, ok_rets, "return [], set() (stream fully inserted by the server)")
    rf = calling(g, attr="refresh_data", recv="self.target_repo")
    # only the success return reached after the RPC (the early 'nothing to send' return needs no refresh)
    rpc = need(where, calling(g, attr="call_with_body_stream"), "the insert RPC")
    after = [r_ for r_ in ok_rets if r_ in g.reach(rpc)]
    need(where, after, "success return after the RPC")
    r = g.reach(rpc, avoid=set(rf))
    ctx.check("vfs-view-refreshed-after-rpc-insert", where, bool(rf) and not (set(after) & r), "after the server inserted the stream, target_repo.refresh_data() runs before success is reported (the client's VFS view reloads pack-names)", message="insert_stream reports success without refresh_data(): under a held write lock the client-side real repository keeps its old pack list, so VFS-backed reads and the next commit do not see the revisions just pushed — results differ from the same sequence on a local path")

    # ---- server lock handlers: "leave the lock in place" is decided on the success path only ---------------------------
    # leave_lock_in_place() makes the following unlock() keep the physical lock for the client that receives the token.
    # If a failure response can still follow it (a second lock that fails, …) the lock stays on disk with a token nobody
    # was given: every later lock_write, local or remote, fails until break-lock — a local lock attempt leaves nothing.
    from ..cfg import build_cfg as _bcfg

    n_leave = 0
    for rel_ in ("breezy/bzr/smart/branch.py", "breezy/bzr/smart/repository.py", "breezy/bzr/smart/bzrdir.py"):
        for q_, f_ in repo.module(rel_).functions().items():
            if not any(call_attr(c) == "leave_lock_in_place" for c in calls_in(f_)):
                continue
            gl = _bcfg(f_)
            lv = [n.id for n in gl.nodes if any(call_attr(c) == "leave_lock_in_place" for c in n.calls())]
            fails = [n.id for n in gl.nodes if n.kind == "stmt" and isinstance(n.ast, ast.Return) and n.ast.value is not None and "FailedSmartServerResponse" in norm(n.ast.value)]
            n_leave += len(lv)
            hit = sorted(set(fails) & gl.reach(lv))
            wl_ = gl.path(lv, hit) if hit else None
            ctx.check("leave-lock-only-on-success", f"{rel_}:{q_}", not hit, f"{q_}: no failure response is reachable after leave_lock_in_place()", construct="; ".join(gl.nodes[i].text()[:50] for i in hit), message=f"{q_} calls leave_lock_in_place() at a point from which it can still answer with a failure ({'; '.join(gl.nodes[i].text()[:40] for i in hit)}): the physical lock is left on disk for a token the client never receives, so the served repository/branch stays locked until break-lock, where the same refused lock attempt on a local branch leaves nothing behind", witness=gl.show_path(wl_) if wl_ else None)
    ctx.require(n_leave >= 3, f"only {n_leave} leave_lock_in_place() sites found in the smart request handlers (hand-confirmed: 4)")
    # ---- the two cache-clearing siblings of RemoteBranch reset the same client-side caches -----------------------------
    # _clear_cached_state_of_remote_branch_only is "_clear_cached_state without touching _real_branch": every cache
    # attribute of the RemoteBranch itself that the full version resets, the partial one resets too (it is what pull()
    # and the VFS fallbacks call before the underlying branch changes).
    def _own_resets(f):
        out = set()
        for n in walk_own(f):
            if isinstance(n, ast.Assign) and isinstance(n.targets[0], ast.Attribute) and norm(n.targets[0].value) == "self" and isinstance(n.value, ast.Constant) and n.value.value is None:
                out.add(n.targets[0].attr)
        sup = any(isinstance(c.func, ast.Attribute) and norm(c.func).startswith("super()") for c in calls_in(f))
        return out, sup

    full = repo.func(RM, "RemoteBranch._clear_cached_state")
    part = repo.func(RM, "RemoteBranch._clear_cached_state_of_remote_branch_only")
    (rf_, sf_), (rp_, sp_) = _own_resets(full), _own_resets(part)
    ctx.check("cache-clear-siblings-agree", f"{RM}:RemoteBranch._clear_cached_state_of_remote_branch_only", rf_ <= rp_ and (sp_ or not sf_), f"caches reset by _clear_cached_state {sorted(rf_)} are reset by the remote-only sibling {sorted(rp_)} (base class part: {sp_})", construct=str(sorted(rf_ - rp_)), message=f"_clear_cached_state_of_remote_branch_only leaves {sorted(rf_ - rp_)} cached although _clear_cached_state resets it: after an operation that changes the underlying branch through _real_branch (pull, VFS fallbacks) under a lock that was already held, the RemoteBranch answers from the stale cache where a local branch answers with the new value (e.g. tags merged by pull are missing)")
    ctx.require(bool(rf_), f"{RM}:RemoteBranch._clear_cached_state resets no own cache attribute (hand-confirmed: _tags_bytes)")

    # ---- a Remote* method that falls back to the same method of its real object hands over every parameter ------------
    from ..astutil import call_recv

    #: wrapper parameter deliberately not handed over, with the reason (confirmed by reading)
    NOT_FORWARDED = {
        ("RemoteRepository.lock_write", "token"): "the real repository is locked with self._lock_token, the token just obtained or checked against `token`",
        ("RemoteRepository.lock_write", "_skip_rpc"): "wrapper-only switch (the RPC was already made by the branch lock)",
        ("RemoteBranch.lock_write", "token"): "the real branch is locked with self._lock_token, obtained from `token` by the RPC",
        ("RemoteBzrDir.get_branches", "possible_transports"): "BzrDir.get_branches() takes no parameters",
        ("RemoteBzrDir.get_branches", "ignore_fallbacks"): "BzrDir.get_branches() takes no parameters",
    }
    n_del = 0
    for q, f in repo.module(RM).functions().items():
        if "." not in q or not q.split(".")[0].startswith("Remote"):
            continue
        name = q.split(".")[-1]
        params = [a.arg for a in f.args.args[1:]] + [a.arg for a in f.args.kwonlyargs]
        for c in calls_in(f):
            if call_attr(c) != name or not (call_recv(c) or "").startswith("self._real_"):
                continue
            n_del += 1
            if any(isinstance(a, ast.Starred) for a in c.args) or any(k.arg is None for k in c.keywords):
                continue
            used = {n.id for a in list(c.args) + [k.value for k in c.keywords] for n in ast.walk(a) if isinstance(n, ast.Name)}
            # a parameter may be handed over through a local derived from it
            derived = {norm(t) for st in walk_own(f) if isinstance(st, ast.Assign) for t in st.targets if isinstance(t, ast.Name) and any(isinstance(n, ast.Name) and n.id in params for n in ast.walk(st.value))}
            missing = [p_ for p_ in params if p_ not in used and (q, p_) not in NOT_FORWARDED and not any(d in used and any(isinstance(n, ast.Name) and n.id == p_ for st in walk_own(f) if isinstance(st, ast.Assign) and any(norm(t) == d for t in st.targets) for n in ast.walk(st.value)) for d in derived)]
            ctx.check("fallback-forwards-parameters", f"{RM}:{q}", not missing, f"{q} hands all of its parameters to {call_recv(c)}.{name}(...)", construct=f"L{c.lineno}: missing {missing}", message=f"{q} accepts {missing} but does not pass {'it' if len(missing) == 1 else 'them'} to {call_recv(c)}.{name}(...): through a smart server URL the operation runs with the default instead of the caller's value (the local branch/repository honours it) — results and the stored state differ from the same call on the local path")
    ctx.require(n_del >= 60, f"{RM}: only {n_del} same-name fallbacks to the real object found (hand-confirmed: 78)")

    # ---- a lock a request handler takes for the duration of the request is given back on every way out ------------------
    from ..cfg import build_cfg

    #: (file, handler method, locked object) — the handlers that lock and unlock the same object within one request
    #: (confirmed by reading; the two streaming handlers keep their lock for the body generator and are not in this table)
    TEMP_LOCKS = [
        ("breezy/bzr/smart/branch.py", "SmartServerBranchRequestLockWrite.do_with_branch", "branch.repository"),
        ("breezy/bzr/smart/branch.py", "SmartServerBranchRequestUnlock.do_with_branch", "branch"),
        ("breezy/bzr/smart/repository.py", "SmartServerRepositoryLockWrite.do_repository_request", "repository"),
        ("breezy/bzr/smart/repository.py", "SmartServerRepositoryUnlock.do_repository_request", "repository"),
        ("breezy/bzr/smart/repository.py", "SmartServerRepositoryReconcile.do_repository_request", "repository"),
    ]
    for rel_, q_, recv_ in TEMP_LOCKS:
        f_ = repo.func(rel_, q_)
        g_ = build_cfg(f_)
        lk_ = [n.id for n in g_.nodes if any(call_attr(c) in ("lock_write", "lock_read") and call_recv(c) == recv_ for c in n.calls())]
        ul_ = [n.id for n in g_.nodes if any(call_attr(c) == "unlock" and call_recv(c) == recv_ for c in n.calls())]
        ctx.require(bool(lk_), f"{rel_}:{q_}: {recv_}.lock_write()/lock_read() not found")
        starts_ = [b for i in lk_ for (b, l) in g_.edges(i) if l != "X" and b not in ul_]
        esc = {g_.exit, g_.raise_exit} & g_.reach(starts_, avoid=set(ul_), include_src=True)
        how = " and ".join(sorted("a normal return" if e == g_.exit else "an exception" for e in esc))
        wit = g_.path(starts_, list(esc), avoid=set(ul_)) if esc else None
        ctx.check("handler-lock-given-back", f"{rel_}:{q_}", bool(ul_) and not esc, f"every way out of the handler after {recv_}.lock_*() passes {recv_}.unlock()", construct=f"{recv_}: leaves through {how}" if esc else "", witness=g_.show_path(wit) if wit else None, message=f"{q_} can leave through {how} with its own lock on {recv_} still held (e.g. when a later lock is refused and the handler answers with a failure response): the server drops a write-locked object, a physical lock stays on disk and every later lock attempt — remote or local — is refused until break-lock; the same sequence on the local path leaves nothing locked")

    # ---- the smart object and its real (VFS) twin see each other's writes -----------------------------------------------
    # (a) a commit through the real repository drops the smart object's negative parents cache (PackRepository does the same
    #     for its own cache in _commit_write_group; the RPC path goes through refresh_data())
    fcw = repo.func(RM, "RemoteRepository.commit_write_group")
    gcw = build_cfg(fcw).without_exc_edges()
    commits = [n.id for n in gcw.nodes if any((call_attr(c) == "commit_write_group" and (call_recv(c) or "").startswith("self._real_")) or ((call_attr(c) or "").startswith("_call") and c.args and const_value(c.args[0], None) == b"Repository.commit_write_group") for c in n.calls())]
    ctx.require(len(commits) >= 2, f"{RM}:RemoteRepository.commit_write_group: the two commit paths (real repository, RPC) were not found")
    resets = [n.id for n in gcw.nodes if any(norm(c.func) in ("self._unstacked_provider.missing_keys.clear", "self.refresh_data", "self._unstacked_provider.disable_cache") for c in n.calls())]
    for cm in commits:
        starts_ = [b for (b, l) in gcw.edges(cm) if b not in resets]
        leak = bool(starts_) and gcw.exit in gcw.reach(starts_, avoid=set(resets), include_src=True) if cm not in resets else False
        ctx.check("commit-drops-negative-cache", f"{RM}:RemoteRepository.commit_write_group[{gcw.nodes[cm].text()[:60]}]", not leak, "after the commit every normal way out resets the cache of keys noted as missing", construct=gcw.nodes[cm].text()[:80], message="RemoteRepository.commit_write_group returns after committing through the real repository without dropping self._unstacked_provider.missing_keys: a revision id looked up (and noted missing) before the commit is still reported absent by get_parent_map / has_revision under the same lock, while the local repository reports it")
    # (b) a state-writing Branch RPC leaves the real branch's cached copy of that state invalid
    # Branch.set_parent_location is deliberately not in this table: the real branch would read the parent through the same
    # cached store, but no operation of RemoteBranch asks the real branch for it, and a history that shows a difference
    # could not be built (tried: pull, set_parent by RPC, set_push_location through the real branch, reopen).
    WRITES = {b"Branch.set_tags_bytes": "tags", b"Branch.put_config_file": "branch.conf"}
    n_w = 0
    for q, f in repo.module(RM).functions().items():
        verbs = [const_value(c.args[0], None) for c in calls_in(f) if (call_attr(c) or "").startswith("_call") and c.args and const_value(c.args[0], None) in WRITES]
        if not verbs:
            continue
        n_w += 1
        touches_real = any("_real_branch" in norm(n) and not norm(n).endswith("_ensure_real()") for n in ast.walk(f) if isinstance(n, (ast.Attribute,))) or any(call_attr(c) in ("_clear_cached_state",) for c in calls_in(f))
        ctx.check("rpc-write-reaches-real-branch", f"{RM}:{q}", touches_real, f"{q} ({verbs[0].decode()}) invalidates or updates what the real branch caches about the {WRITES[verbs[0]]}", construct=verbs[0].decode(), message=f"{q} writes the {WRITES[verbs[0]]} by RPC and leaves the already opened real branch (self._real_branch, used by every VFS fallback such as pull) with its own cached copy from before the write: a later operation under the same lock that goes through the real branch works on the stale value — the same sequence on the local path sees the write")
    ctx.require(n_w >= 2, f"{RM}: only {n_w} state-writing Branch RPC wrappers found (hand-confirmed: 2)")
    # (c) what _get_parent_map_rpc has already answered itself is part of what it returns
    fgp = repo.func(RM, "RemoteRepository._get_parent_map_rpc")
    seeded = [a for a in walk_own(fgp) if isinstance(a, ast.Assign) and isinstance(a.value, ast.Dict) and a.value.keys and any(norm(k) == "NULL_REVISION" for k in a.value.keys)]
    ctx.require(len(seeded) == 1, f"{RM}:RemoteRepository._get_parent_map_rpc: the answer seeded with NULL_REVISION was not found")
    sv = norm(seeded[0].targets[0])
    rets = [r_ for r_ in walk_own(fgp) if isinstance(r_, ast.Return) and r_.value is not None and r_.lineno > seeded[0].lineno and not (isinstance(r_.value, ast.Call) and call_attr(r_.value) == "_get_parent_map_rpc")]
    merged = any((call_attr(c) == "update" and any(norm(a) == sv for a in c.args)) for c in calls_in(fgp)) or any(isinstance(a, ast.Assign) and norm(a.value) in (sv, f"dict({sv})") and norm(a.targets[0]) != sv for a in walk_own(fgp))
    dropped = [f"L{r_.lineno}:{norm(r_)[:40]}" for r_ in rets if sv not in {n.id for n in ast.walk(r_.value) if isinstance(n, ast.Name)}] if not merged else []
    ctx.check("answer-seeded-not-dropped", f"{RM}:RemoteRepository._get_parent_map_rpc", not dropped, f"every answer returned after `{sv}` was seeded with NULL_REVISION includes it", construct="; ".join(dropped), message=f"_get_parent_map_rpc answers NULL_REVISION itself ({sv} = {{NULL_REVISION: ()}}) but returns {'; '.join(dropped)} without it when other keys were asked too: get_parent_map([b'null:', rev]) omits null: through a smart server (and the caching provider then notes null: as missing), the local repository returns it")
    # ---- a fallback that re-reads a parameter the failed attempt already consumed needs it materialised -------------------
    n_fb = 0
    #: confirmed by running both: the local implementation needs a re-iterable as well (a generator gives [] on both sides)
    SAME_CONTRACT = {("RemoteRepository.iter_revisions", "revision_ids")}
    for q, f in repo.module(RM).functions().items():
        if "." not in q or not q.split(".")[0].startswith("Remote"):
            continue
        params_all = [a.arg for a in f.args.args[1:]]
        params = [a for a in params_all if (q, a) not in SAME_CONTRACT]
        for tr in [t for t in walk_own(f) if isinstance(t, ast.Try)]:
            hs_ = [h for h in tr.handlers if h.type is not None and "UnknownSmartMethod" in norm(h.type)]
            if not hs_:
                continue
            body_mod = ast.Module(body=tr.body, type_ignores=[])
            for p_ in params:
                used_in_try = any(isinstance(n_, ast.Name) and n_.id == p_ for n_ in ast.walk(body_mod))
                replayed = [c for h in hs_ for st in h.body for c in calls_in(st) if (call_recv(c) or "").startswith("self._real_") and any(isinstance(a, ast.Name) and a.id == p_ for a in c.args)]
                if not (used_in_try and replayed):
                    continue
                # only iterables matter: the parameter is iterated or handed on as a whole inside the try body
                iterated = any(isinstance(n_, (ast.For, ast.comprehension)) and any(isinstance(x, ast.Name) and x.id == p_ for x in ast.walk(n_.iter)) for n_ in ast.walk(body_mod)) or any(any(isinstance(a, ast.Name) and a.id == p_ for a in c.args) and (call_attr(c) or "").endswith("_rpc") for c in calls_in(body_mod))
                if not iterated:
                    continue
                # armed only where a caller in the code base really hands in a one-shot iterable
                mname = q.split(".")[-1]
                pidx = params_all.index(p_) if p_ in params_all else 0
                one_shot = []
                for rel_ in repo.python_files():
                    if "/tests/" in rel_ or f".{mname}(" not in repo.text(rel_):
                        continue
                    for c in (n_ for n_ in ast.walk(repo.module(rel_).tree) if isinstance(n_, ast.Call)):
                        if call_attr(c) == mname and len(c.args) > pidx and (isinstance(c.args[pidx], ast.GeneratorExp) or (isinstance(c.args[pidx], ast.Call) and norm(c.args[pidx].func) in ("iter", "map", "filter", "zip", "reversed", "itertools.chain"))):
                            one_shot.append(f"{rel_}:L{c.lineno}")
                if not one_shot:
                    ctx.info("fallback-replays-consumed-argument", f"{RM}:{q}[{p_}]", "replays a consumed argument in its fallback, but no caller in the code base passes a one-shot iterable (lists only); not armed")
                    continue
                n_fb += 1
                solid = any(isinstance(a, ast.Assign) and norm(a.targets[0]) == p_ and isinstance(a.value, ast.Call) and norm(a.value.func) in ("list", "tuple", "sorted", "set", "frozenset") and a.lineno < tr.lineno for a in walk_own(f))
                ctx.check("fallback-replays-consumed-argument", f"{RM}:{q}[{p_}]", solid, f"`{p_}` is materialised (list/tuple/set) before the attempt that consumes it, so the UnknownSmartMethod fallback can walk it again", construct=f"L{replayed[0].lineno}:{norm(replayed[0])[:70]}", message=f"{q} walks `{p_}` while building the request and passes the same object to the real repository when the server does not know the verb: a caller that hands in a generator silently gets nothing from the fallback, the local repository yields everything")
    ctx.require(n_fb >= 1, f"{RM}: no fallback that replays a consumed iterable found (hand-confirmed: RemoteRepository.iter_files_bytes)")

MUTANTS = [
    Mutant("iter_files_bytes fallback replays the consumed argument (fix 2c7db3d reverted)", RM, "        desired_files = list(desired_files)\n        try:\n            absent = {}\n", "        try:\n            absent = {}\n", expect="fallback-replays-consumed-argument"),
    Mutant("commit through the real repository keeps the noted misses (fix e13eeb1 reverted)", RM, "            self._unstacked_provider.missing_keys.clear()\n            return result\n", "            return result\n", expect="commit-drops-negative-cache"),
    Mutant("RPC tag write leaves the real branch's cache (fix 4b9d7f5 reverted)", RM, "            if self._real_branch is not None:\n                # The real branch caches the tags it last read or wrote while\n                # it is locked, and it has not seen this write.\n                self._real_branch._tags_bytes = None\n", "            pass\n", expect="rpc-write-reaches-real-branch"),
    Mutant("repository lock of Branch.lock_write given back only on success", "breezy/bzr/smart/branch.py", "            try:\n                branch_token = branch.lock_write(token=branch_token).token\n            finally:\n                # this leaves the repository with 1 lock\n                branch.repository.unlock()\n", "            branch_token = branch.lock_write(token=branch_token).token\n            branch.repository.unlock()\n", expect="handler-lock-given-back"),
    Mutant("RemoteBranch.push drops the tag selector", RM, "                _override_hook_source_branch=self,\n                tag_selector=tag_selector,\n", "                _override_hook_source_branch=self,\n", expect="fallback-forwards-parameters"),
    Mutant("repository lock left in place before the branch lock is taken", "breezy/bzr/smart/branch.py", "            repo_token = branch.repository.lock_write(token=repo_token).repository_token\n            try:\n                branch_token = branch.lock_write(token=branch_token).token\n", "            repo_token = branch.repository.lock_write(token=repo_token).repository_token\n            if repo_token is not None:\n                branch.repository.leave_lock_in_place()\n            try:\n                branch_token = branch.lock_write(token=branch_token).token\n", expect="leave-lock-only-on-success"),
    Mutant("remote-only cache clearing keeps the tags", RM, "        super()._clear_cached_state()\n        self._tags_bytes = None\n\n    @property\n    def control_files", "        super()._clear_cached_state()\n\n    @property\n    def control_files", expect="cache-clear-siblings-agree"),
    Mutant("branch lock keeps the previous release mode", RM, "            if token is not None:\n                self._leave_lock = True\n            else:\n                self._leave_lock = False\n            self._lock_mode = \"w\"\n            self._lock_count = 1\n        elif self._lock_mode == \"r\":\n            raise errors.ReadOnlyError(self)\n        else:\n            if token is not None:\n                # A token was given to lock_write, and we're relocking, so\n                # check that the given token actually matches the one we\n                # already have.\n                if token != self._lock_token:\n                    raise errors.TokenMismatch(token, self._lock_token)\n            self._lock_count += 1\n            # Re-lock the repository too.\n            self.repository.lock_write(self._repo_lock_token)", "            if token is not None:\n                self._leave_lock = True\n            self._lock_mode = \"w\"\n            self._lock_count = 1\n        elif self._lock_mode == \"r\":\n            raise errors.ReadOnlyError(self)\n        else:\n            if token is not None:\n                # A token was given to lock_write, and we're relocking, so\n                # check that the given token actually matches the one we\n                # already have.\n                if token != self._lock_token:\n                    raise errors.TokenMismatch(token, self._lock_token)\n            self._lock_count += 1\n            # Re-lock the repository too.\n            self.repository.lock_write(self._repo_lock_token)", expect="lock-release-mode-reinitialised"),
    Mutant("no refresh after the RPC insert", RM, "        else:\n            self.target_repo.refresh_data()\n            return [], set()\n", "        else:\n            return [], set()\n", expect="vfs-view-refreshed-after-rpc-insert"),
    Mutant("client sends an unregistered verb", RM, "b\"Branch.lock_write\"", "b\"Branch.lock_write2\"", expect="client-verb-registered"),
    Mutant("lazy registration names a missing class", RQ, "\"SmartServerBranchBreakLock\",", "\"SmartServerBranchBreakLocks\",", expect="handler-resolves"),
    Mutant("neutral: a new verb registered on the server only", RQ, "request_handlers.register_lazy(\n    b\"append\", \"breezy.bzr.smart.vfs\", \"AppendRequest\", info=\"mutate\"\n)", "request_handlers.register_lazy(\n    b\"append\", \"breezy.bzr.smart.vfs\", \"AppendRequest\", info=\"mutate\"\n)\nrequest_handlers.register_lazy(\n    b\"append2\", \"breezy.bzr.smart.vfs\", \"AppendRequest\", info=\"mutate\"\n)", neutral=True),
]
