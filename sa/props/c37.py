"""C37 — conditional git ref updates honour the expected old value."""

import ast

from ..astutil import call_attr, call_recv, calls_in, dotted_in, norm, param_names, walk_own
from ..astutil import call_name as call_name_
from ..cfg import build_cfg as _bcfg37
from ..cfg import build_cfg
from ..rules import calling, fn_cfg, need
from ..selftest import Mutant

ID = "C37"
TECHNIQUE = "CFG control-dependence of every ref write on a comparison with the expected-value parameter (K2) + result-consumption at call sites (K5) (ast)"
FLOOR = 25
TG = "breezy/git/transportgit.py"
IR = "breezy/git/interrepo.py"
EXPLANATION = """
For every set_if_equals / remove_if_equals / add_if_new defined in breezy/git (today: TransportRefsContainer):
R1 (K2) when the expected-value parameter is not None, every path to a ref write (put_bytes/put_file/delete/
   _remove_packed_ref/open_write_stream) passes the *match* edge of a comparison that involves that parameter; the
   mismatch edge reaches no write and returns False. A function that never compares the parameter violates the rule.
R2 (K2) add_if_new: every write is control-dependent on the "ref has no current contents" test and the "exists" edge
   returns False without writing.
R3 (K5) call sites in breezy/ (non-test) that pass a non-None expected value must consume the boolean result (test it,
   return it, assign it) — a dropped result turns "reports failure" into a silent no-op.
R4 (K6) the value compared is read after following symbolic refs for set_if_equals/add_if_new (self.follow) and covers
   both loose and packed refs (read_loose_ref and get_packed_refs both consulted).
Added while testing against seeded changes: R4 is now a decision table by abstract evaluation over the three storage
states of a ref (loose over stale packed / packed only / absent), following one level of helper; R5 the expected value
handed to a conditional update is never None and absent refs are created with add_if_new.
R6 whatever a method writes to packed-refs is the cached view get_packed_refs() answers from, or that cache is replaced
on every normal path after the write (the value in force for the next conditional update is read through the cache).
R7 a method that rewrites packed-refs has no way out that skips (re)reading packed-refs first.
R8 (fourth round) remove_if_equals passes self._remove_packed_ref(name) on every path to `return True`.
R9 get_packed_refs: no path from the header sniff `next(iter(f))` to the plain `read_packed_refs(f)` avoids `f.seek(0)`.
Does not decide: atomicity between the read and the write (no lock file on arbitrary transports).
"""
ASSUMPTIONS = ["dulwich RefsContainer semantics: ZERO_SHA stands for an absent ref in comparisons"]

WRITES = {"put_bytes", "put_file", "put_bytes_non_atomic", "put_file_non_atomic", "delete", "_remove_packed_ref", "open_write_stream", "rename", "move"}
CAS = {"set_if_equals": 1, "remove_if_equals": 1}


def _is_none_test(cmp_, p):
    return len(cmp_.ops) == 1 and isinstance(cmp_.ops[0], (ast.Is, ast.IsNot, ast.Eq, ast.NotEq)) and isinstance(cmp_.comparators[0], ast.Constant) and cmp_.comparators[0].value is None and norm(cmp_.left) == p


def _compare_polarity(expr, p):
    """For a test expression comparing something with parameter p return the
    label of the *mismatch* edge ('T' or 'F'), else None."""
    neg = False
    e = expr
    while isinstance(e, ast.UnaryOp) and isinstance(e.op, ast.Not):
        neg = not neg
        e = e.operand
    if isinstance(e, ast.BoolOp) and isinstance(e.op, ast.And) and not neg:
        # `p is not None and <current> != p`: true exactly on a mismatch with a given p
        rest = [v for v in e.values if not (isinstance(v, ast.Compare) and _is_none_test(v, p))]
        if len(rest) == 1 and len(rest) < len(e.values):
            return _compare_polarity(rest[0], p) if _compare_polarity(rest[0], p) == "T" else None
    if isinstance(e, ast.Compare) and len(e.ops) == 1 and p in {norm(e.left), norm(e.comparators[0])} and not _is_none_test(e, p):
        if isinstance(e.ops[0], (ast.NotEq, ast.IsNot)):
            return "F" if neg else "T"
        if isinstance(e.ops[0], (ast.Eq, ast.Is)):
            return "T" if neg else "F"
    return None


def check_cas(ctx, rel, qual, fn):
    where = f"{rel}:{qual}"
    g = build_cfg(fn)
    ctx.fact(len(g.nodes))
    params = [x for x in param_names(fn) if x != "self"]
    ctx.require(len(params) >= 2, f"{where}: unexpected signature {params}")
    p = params[1]
    writes = need(where, calling(g, attr=WRITES), "ref write")
    g1 = g.assume({p: "notNone"})
    tests = [(n.id, _compare_polarity(n.ast, p)) for n in g.nodes if n.kind == "test"]
    tests = [(t, pol) for t, pol in tests if pol is not None]
    if not tests:
        ctx.check("R1-cas-param-guards-write", where, False, f"writes are guarded by a comparison with `{p}`", construct=f"parameter `{p}` is never compared", message=f"`{p}` (the expected old value) is never compared with the current ref: the update is unconditional and always reports success")
        return
    match_cut = {(t, b, l) for t, pol in tests for (b, l) in g.succ[t] if l != pol and l in ("T", "F")}
    g2 = g1.copy_without(match_cut)
    hit = sorted(set(writes) & g2.reachable_from_entry())
    w = g2.path([g.entry], hit) if hit else None
    ctx.check("R1-cas-param-guards-write", where, not hit, f"with `{p}` given, every write passes the match edge of a comparison with `{p}`", construct="; ".join(g.nodes[i].text() for i in hit), message=f"a ref write is reachable without the current value having been compared with `{p}`", witness=g.show_path(w) if w else None)
    for t, pol in tests:
        starts = [b for (b, l) in g.succ[t] if l == pol]
        r = g.reach(starts, include_src=True)
        rets = [g.nodes[i] for i in r if g.nodes[i].kind == "stmt" and isinstance(g.nodes[i].ast, ast.Return)]
        ok = not (set(writes) & r) and rets and all(norm(x.ast.value) == "False" for x in rets) and g.exit in r
        ctx.check("R1-mismatch-returns-false", where, ok, f"a mismatch with `{p}` writes nothing and returns False", construct=g.nodes[t].text(), message="the mismatch branch writes or does not return False")
    # R4: both loose and packed values are consulted, the loose one first (a loose ref overrides a packed one); the
    # lookup may live in a helper method of the same class (followed one level)
    src_fn, src_where = fn, where
    names = {call_attr(c) for c in calls_in(fn)}
    if "read_loose_ref" not in names:
        cls = qual.rsplit(".", 1)[0]
        for c in calls_in(fn):
            if call_recv(c) == "self" and call_attr(c) not in WRITES:
                r = ctx.repo.resolve_method(rel, cls, call_attr(c))
                if r is not None and any(call_attr(x) == "read_loose_ref" for x in calls_in(r[2])):
                    src_fn, src_where = r[2], f"{r[0]}:{r[1]}.{call_attr(c)}"
                    break
        names = {call_attr(c) for c in calls_in(src_fn)}
    ctx.check("R4-loose-and-packed", src_where, "read_loose_ref" in names and "get_packed_refs" in names, "the compared value covers loose and packed refs", construct=str(sorted(names & {"read_loose_ref", "get_packed_refs", "follow"})), message="the current value is not read from both loose and packed refs")
    _current_value_table(ctx, rel, qual, fn, p)


def _current_value_table(ctx, rel, qual, fn, p):
    """K8 decision table by abstract evaluation (sa.absint) of the whole CAS method — including a helper of the same
    class if the lookup lives there — for the three storage states of a ref: loose (with a stale packed entry), only
    packed, absent.  With the expected value equal to the value in force the method must reach its write; with any other
    expected value it must return False without writing.  This is order-independent: reading the packed file first and
    letting the loose ref override it passes; using a stale packed entry although a loose ref exists does not."""
    from ..absint import Interp, Obj, Opaque, Raised, Unsupported

    where = f"{rel}:{qual}"
    cls = qual.rsplit(".", 1)[0]
    L, P, Z, N = b"L" * 40, b"P" * 40, b"0" * 40, b"N" * 40
    rows = [("loose ref over a stale packed entry", L, {b"refs/x": P}, L, [P, Z]), ("packed only", None, {b"refs/x": P}, P, [L, Z]), ("absent", None, {}, Z, [L, P])]
    state = {}

    def hook(interp, call, name, ev_args, env):
        import re as _re

        if not name or not _re.fullmatch(r"[\w.]+", name):
            return NotImplemented
        attr = name.split(".")[-1]
        if name == "self.read_loose_ref":
            return state["loose"]
        if name == "self.get_packed_refs":
            return dict(state["packed"])
        if name == "self.follow":
            raise Raised("KeyError", (), call)
        if attr in WRITES or name in ("self._remove_packed_ref",):
            raise Raised("WRITE", (), call)
        if _re.fullmatch(r"self\.\w+", name):
            r = ctx.repo.resolve_method(rel, cls, attr)
            if r is not None and any(call_attr(x) in ("read_loose_ref", "get_packed_refs") for x in calls_in(r[2])):
                args, kw = ev_args()
                params = [a.arg for a in r[2].args.args]
                return interp.call(r[2], dict(zip(params, [env.get("self")] + list(args)), **kw))
            return None
        if name == "contextlib.suppress":
            return Opaque("suppress")
        if name in ("urlutils.quote_from_bytes",):
            return "quoted"
        return NotImplemented

    me = Obj("refs")
    me.set("transport", Opaque("transport"))
    me.set("worktree_transport", Opaque("worktree_transport"))
    it = Interp(call_hook=hook, attr_hook=lambda o, a: Opaque(a), name_hook=lambda n: Z if n == "ZERO_SHA" else (Opaque(n) if n in ("SymrefLoop", "NoSuchFile", "contextlib", "urlutils", "errors") else NotImplemented))
    params = [a.arg for a in fn.args.args]

    def run_(expected):
        args = {"self": me, params[1]: b"refs/x", p: expected}
        for extra in params[3:]:
            args[extra] = N
        try:
            return ("returned", it.call(fn, args))
        except Raised as r:
            return ("raised", r.name)

    try:
        for label, loose, packed, current, others in rows:
            state["loose"], state["packed"] = loose, packed
            out = run_(current)
            ctx.check("R4-current-value-table", where, out == ("raised", "WRITE"), f"{label}: expected value == value in force -> the update is written", construct=f"{label}: {out}", message=f"{label}: with the expected old value equal to the ref's value in force the method does not write ({out})")
            for o in others:
                out = run_(o)
                ctx.check("R4-current-value-table", where, out == ("returned", False), f"{label}: expected value {o[:1].decode()}… differs from the value in force -> False, nothing written", construct=f"{label}: expected {o[:1].decode()}: {out}", message=f"{label}: the expected old value differs from the ref's value in force but the method answers {out} — " + ("it compared with the stale packed entry instead of the loose ref" if loose is not None and o == P else "the comparison does not cover this storage state"))
    except Unsupported as e:
        from ..index import AnalysisError

        raise AnalysisError(f"{where}: abstract evaluation unsupported: {e}")


def check_add_if_new_fallback(ctx, rel, qual, fn):
    """R2b: the 'use the name itself' fallback of add_if_new is taken only for 'no such ref' (KeyError / IndexError from
    follow()): any other failure to resolve the name (SymrefLoop: the ref exists, its chain is too deep or cyclic) must
    propagate — the existence test sits inside the try, the fallback path has none."""
    where = f"{rel}:{qual}"
    for t in ast.walk(fn):
        if not isinstance(t, ast.Try):
            continue
        if not any(call_attr(c) == "follow" for st in t.body for c in calls_in(st)):
            continue
        for h in t.handlers:
            names = set()
            if h.type is None:
                names = {"<bare>"}
            else:
                names = {norm(e) for e in (h.type.elts if isinstance(h.type, ast.Tuple) else [h.type])}
            swallows = not any(isinstance(r, ast.Raise) for r in ast.walk(h))
            if swallows:
                extra = sorted(names - {"KeyError", "IndexError"})
                ctx.check("R2-add-if-new", where, not extra, f"the unresolved-name fallback is taken for {sorted(names)} only (no such ref)", construct=str(extra), message=f"add_if_new falls back to writing the name itself when follow() fails with {extra}: the existence test lives inside the try, so an existing ref whose symbolic chain cannot be resolved (too deep, or a cycle such as HEAD -> refs/heads/x -> HEAD) is overwritten and True is returned")


def check_add_if_new(ctx, rel, qual, fn):
    where = f"{rel}:{qual}"
    g = build_cfg(fn)
    ctx.fact(len(g.nodes))
    writes = need(where, calling(g, attr=WRITES), "ref write")
    # names bound to the current contents: 2nd element of an unpack of self.follow(...), or result of read_loose_ref
    cur = set()
    for s in walk_own(fn):
        if isinstance(s, ast.Assign) and isinstance(s.value, ast.Call):
            if call_attr(s.value) == "follow" and isinstance(s.targets[0], ast.Tuple) and len(s.targets[0].elts) == 2:
                cur.add(norm(s.targets[0].elts[1]))
            if call_attr(s.value) in ("read_loose_ref",):
                cur.add(norm(s.targets[0]))
    tests = []
    for n in g.nodes:
        if n.kind == "test" and isinstance(n.ast, ast.Compare) and len(n.ast.ops) == 1 and norm(n.ast.left) in cur and isinstance(n.ast.comparators[0], ast.Constant) and n.ast.comparators[0].value is None:
            exists_edge = "T" if isinstance(n.ast.ops[0], (ast.IsNot, ast.NotEq)) else "F"
            tests.append((n.id, exists_edge))
    if not tests:
        ctx.check("R2-add-if-new", where, False, "writes depend on a 'no current contents' test", construct="no such test", message="add_if_new never tests whether the ref already has a value")
        return
    for t, ex in tests:
        starts = [b for (b, l) in g.succ[t] if l == ex]
        r = g.reach(starts, include_src=True)
        rets = [g.nodes[i] for i in r if g.nodes[i].kind == "stmt" and isinstance(g.nodes[i].ast, ast.Return)]
        ok = not (set(writes) & r) and rets and all(norm(x.ast.value) == "False" for x in rets)
        ctx.check("R2-add-if-new", where, ok, "an existing ref is left alone and False is returned", construct=g.nodes[t].text())
    ctx.check("R2-add-if-new", where, any(call_attr(c) == "follow" for c in calls_in(fn)), "the existence test is made after following symbolic refs")


def run(ctx):
    repo = ctx.repo
    found = 0
    for rel in repo.python_files():
        if not rel.startswith("breezy/git/"):
            continue
        for q, fn in repo.module(rel).functions().items():
            base = q.split(".")[-1]
            if base in CAS and "." in q:
                found += 1
                check_cas(ctx, rel, q, fn)
            elif base == "add_if_new" and "." in q:
                found += 1
                check_add_if_new(ctx, rel, q, fn)
                check_add_if_new_fallback(ctx, rel, q, fn)
    ctx.require(found >= 3, f"only {found} CAS methods found under breezy/git (hand-confirmed: 3 in TransportRefsContainer)")
    # ---- R3: results consumed at call sites ---------------------------------
    sites = 0
    for rel in repo.python_files():
        txt = repo.text(rel)
        if "_if_equals(" not in txt:
            continue
        for q, fn in repo.module(rel).functions().items():
            for s in walk_own(fn):
                if isinstance(s, ast.Expr) and isinstance(s.value, ast.Call) and call_attr(s.value) in CAS:
                    c = s.value
                    old = c.args[1] if len(c.args) > 1 else None
                    if old is None or (isinstance(old, ast.Constant) and old.value is None):
                        continue
                    sites += 1
                    ctx.check("R3-result-consumed", f"{rel}:{q}", False, "result of a conditional ref update is consumed", construct=norm(c), message=f"the boolean result of `{norm(c)}` is discarded: a failed compare-and-swap is not reported")
                elif isinstance(s, ast.Call) and call_attr(s) in CAS and len(s.args) > 1 and not (isinstance(s.args[1], ast.Constant) and s.args[1].value is None):
                    # counted as consumed unless it is the direct child of an Expr (handled above)
                    pass
    # ---- R5: the expected old value handed to a conditional update is a real value ------------------------------
    # (old_ref=None switches the comparison off: creating a ref one believes to be new must go through add_if_new)
    for rel in repo.python_files():
        if "_if_equals(" not in repo.text(rel) or not rel.startswith("breezy/git/"):
            continue
        for q, fn in repo.module(rel).functions().items():
            for c in calls_in(fn):
                if call_attr(c) in CAS and len(c.args) > 1 and isinstance(c.args[1], ast.Name):
                    nm = c.args[1].id
                    vals = [s_.value for s_ in walk_own(fn) if isinstance(s_, ast.Assign) and any(norm(t) == nm for t in s_.targets)]
                    maybe_none = [norm(v)[:70] for v in vals if any(isinstance(x, ast.Constant) and x.value is None for x in ast.walk(v)) or any(isinstance(x, ast.Call) and call_attr(x) == "get" and len(x.args) < 2 for x in ast.walk(v))]
                    if vals:
                        ctx.check("R5-expected-value-present", f"{rel}:{q}", not maybe_none, f"`{nm}` handed to {call_attr(c)} is a value that was read, never None", construct="; ".join(maybe_none), message=f"`{norm(c)[:80]}` can be called with `{nm}` = None ({'; '.join(maybe_none)}): that switches the comparison off, so a ref created by someone else in the meantime is overwritten; an absent ref must be created with add_if_new")
    ffr = repo.func(IR, "InterToLocalGitRepository.fetch_refs")
    hs = [h for h in ast.walk(ffr) if isinstance(h, ast.ExceptHandler) and "KeyError" in norm(h.type or ast.Constant(value=""))]
    ctx.check("R5-expected-value-present", f"{IR}:InterToLocalGitRepository.fetch_refs", any(call_attr(c) == "add_if_new" for h in hs for c in calls_in(h)), "a ref that was absent when the target's refs were read is created with add_if_new (never overwrites)", message="fetch_refs no longer creates absent refs with add_if_new: two pushers creating the same ref overwrite each other silently")
    # ---- R6: the cached view of packed-refs is what was written to the file -------------------------------------
    # (the value in force that the next conditional update compares with is read through this cache)
    for rel in repo.python_files():
        if not rel.startswith("breezy/git/") or "write_packed_refs" not in repo.text(rel):
            continue
        mod = repo.module(rel)
        for cq in mod.classes():
            getter = mod.get(f"{cq}.get_packed_refs")
            if getter is None:
                continue
            rets = {norm(r.value) for r in walk_own(getter) if isinstance(r, ast.Return) and r.value is not None and norm(r.value).startswith("self.")}
            ctx.require(len(rets) == 1 and next(iter(rets)).startswith("self."), f"{rel}:{cq}.get_packed_refs: cache attribute not recognised ({sorted(rets)})")
            packed = next(iter(rets))
            caches = sorted({norm(a.targets[0]) for a in walk_own(getter) if isinstance(a, ast.Assign) and norm(a.targets[0]).startswith("self.") and norm(a.value) in ("{}", "dict()")})
            ctx.require(packed in caches, f"{rel}:{cq}.get_packed_refs: {packed} is not initialised there")
            for q, fn in mod.functions().items():
                if not q.startswith(cq + "."):
                    continue
                g = None
                for c in calls_in(fn):
                    if (call_attr(c) or norm(c.func)) != "write_packed_refs" or len(c.args) < 2:
                        continue
                    where = f"{rel}:{q}"
                    handed = [norm(a) for a in c.args[1:3]]
                    direct = handed[0] == packed and all(h in caches for h in handed)
                    ok = direct
                    if not direct:
                        # accepted alternative: the cache is replaced or invalidated on every normal path after the write
                        from ..cfg import build_cfg
                        from ..rules import calling

                        g = g or build_cfg(fn)
                        gx = g.without_exc_edges()
                        w_ = calling(gx, name="write_packed_refs") or calling(gx, attr="write_packed_refs")
                        upd = [n.id for n in gx.nodes if n.kind == "stmt" and isinstance(n.ast, ast.Assign) and any(norm(t) == packed for t in n.ast.targets)]
                        ok = bool(w_) and bool(upd) and gx.exit not in gx.reach(w_, avoid=set(upd))
                    # R7: a function that rewrites packed-refs decides on the state in force: no exit before the packed
                    # refs have been (re)read — an early way out keyed on "nothing cached yet" leaves the packed entry
                    # of a ref whose conditional delete has just been reported as done
                    from ..cfg import build_cfg as _bc
                    from ..rules import calling as _calling

                    g7 = _bc(fn).without_exc_edges()
                    rd7 = _calling(g7, attr="get_packed_refs") or _calling(g7, name="read_packed_refs")
                    r7 = g7.reach([g7.entry], avoid=set(rd7), include_src=True)
                    w7 = g7.path([g7.entry], [g7.exit], avoid=set(rd7)) if g7.exit in r7 else None
                    # ... and that read is a fresh one: the cache attribute is reset before it on every path
                    inval7 = [n_.id for n_ in g7.nodes if n_.kind == "stmt" and isinstance(n_.ast, ast.Assign) and any(norm(t_) == packed for t_ in n_.ast.targets) and isinstance(n_.ast.value, ast.Constant) and n_.ast.value.value is None]
                    fresh7 = bool(inval7) and bool(rd7) and g7.always_before(inval7, rd7)[0]
                    ctx.check("R7-packed-rewrite-reads-state", where, fresh7, f"{q}: the cached view {packed} is dropped before packed-refs is read for the rewrite", message=f"{q} rewrites packed-refs from the cached view without re-reading the file first ({packed} is not reset before get_packed_refs()): refs another updater deleted or changed since this container first read packed-refs are written back with their old values — a deleted ref comes back (add_if_new is then refused), a changed ref silently reverts (set_if_equals against the stale value succeeds)")
                    ctx.check("R7-packed-rewrite-reads-state", where, bool(rd7) and g7.exit not in r7, f"{q}: every way out passes a (re)read of packed-refs", construct="exit without reading packed-refs", message=f"{q} can return before it has read packed-refs (e.g. when nothing is cached yet): a conditional delete that matched the loose value reports success while the packed entry stays, and the ref comes back with that stale value", witness=g7.show_path(w7) if w7 else None)
                    ctx.check("R6-packed-cache-follows-file", where, ok, f"{q}: what is written to packed-refs is the cached view {caches} (or the cache is replaced afterwards)", construct=f"write_packed_refs(…, {', '.join(handed)})", message=f"{q} writes packed-refs from {handed} while the cache {packed} that get_packed_refs() answers from is left as it was: the next conditional update compares with a value that is no longer in force (a removed ref still looks present, add_if_new refuses to create it, set_if_equals succeeds against the stale value)")
    n_all = 0
    for rel in repo.python_files():
        if "_if_equals(" in repo.text(rel):
            for q, fn in repo.module(rel).functions().items():
                for c in calls_in(fn):
                    if call_attr(c) in CAS:
                        n_all += 1
    ctx.extra["cas_call_sites"] = n_all
    ctx.check("R3-sites-found", IR, n_all >= 1, f"{n_all} conditional-update call sites found in breezy/ (non-test)")
    # ---- R8: a successful delete removes the ref in both of its storage forms ------------------------------------------------
    from ..astutil import const_value as _cv8
    from ..rules import calling as _calling8

    frm, grm, wrm = fn_cfg(ctx, TG, "TransportRefsContainer.remove_if_equals")
    rp = need(wrm, _calling8(grm, attr="_remove_packed_ref", recv="self"), "self._remove_packed_ref(name)")
    okret = [n.id for n in grm.nodes if n.kind == "stmt" and isinstance(n.ast, ast.Return) and _cv8(n.ast.value, None) is True]
    need(wrm, okret, "return True")
    skip = sorted(set(okret) & grm.reach([grm.entry], avoid=set(rp), include_src=True))
    ctx.check("R8-delete-removes-packed-entry", wrm, not skip, "every path to `return True` passes self._remove_packed_ref(name) — whether or not a loose file existed", message="remove_if_equals reports success on a path that does not remove the packed-refs entry (only when no loose file existed?): a ref that is both loose and packed — the normal state after `git pack-refs` and a later move of the ref — is half deleted and reappears at its old packed value; a tag dropped by uncommit comes back")
    # ---- R9: the line read to sniff the packed-refs header is given back before a header-less file is parsed -------------
    fpr = repo.func(TG, "TransportRefsContainer.get_packed_refs")
    gpr = _bcfg37(fpr)
    sniff = [n.id for n in gpr.nodes if n.ast is not None and any(call_name_(c) == "next" for c in n.calls())]
    plain = [n.id for n in gpr.nodes if n.ast is not None and any(call_name_(c) == "read_packed_refs" for c in n.calls())]
    seeks = [n.id for n in gpr.nodes if n.ast is not None and any(call_attr(c) == "seek" and c.args and norm(c.args[0]) == "0" for c in n.calls())]
    ctx.require(len(sniff) == 1 and bool(plain), f"{TG}:TransportRefsContainer.get_packed_refs: header sniff (next(iter(f))) or plain reader (read_packed_refs) not found")
    unre = sorted(gpr.reach(sniff, avoid=set(seeks)) & set(plain))
    ctx.check("R9-packed-refs-sniff-rewound", f"{TG}:TransportRefsContainer.get_packed_refs", not unre, "between the header sniff and the plain read_packed_refs() the file is rewound (a header-less packed-refs file starts with a ref)", construct=gpr.nodes[unre[0]].text() if unre else "", message="get_packed_refs consumes the first line to look for the '# pack-refs' header and parses the rest with read_packed_refs() without f.seek(0): in a packed-refs file without a header line (valid) the first ref is never seen — add_if_new overwrites it and returns True, set_if_equals(name, ZERO_SHA, x) succeeds although the ref exists")


_FIX_SET = "        if old_ref is not None:\n            orig_ref = self.read_loose_ref(realname)\n            if orig_ref is None:\n                orig_ref = self.get_packed_refs().get(realname, ZERO_SHA)\n            if orig_ref != old_ref:\n                return False\n"
MUTANTS = [
    Mutant("packed-refs sniff not rewound for header-less files", TG, "                else:\n                    f.seek(0)\n                    for sha, name in read_packed_refs(f):\n", "                else:\n                    for sha, name in read_packed_refs(f):\n", expect="R9-packed-refs-sniff-rewound"),
    Mutant("packed entry removed only when no loose file existed", TG, "        with contextlib.suppress(NoSuchFile):\n            transport.delete(urlutils.quote_from_bytes(name))\n        self._remove_packed_ref(name)\n        return True\n", "        try:\n            transport.delete(urlutils.quote_from_bytes(name))\n        except NoSuchFile:\n            self._remove_packed_ref(name)\n        return True\n", expect="R8-delete-removes-packed-entry"),
    Mutant("packed-refs rewritten from the cached view", TG, "        self._packed_refs = None\n        self.get_packed_refs()\n\n        if name not in self._packed_refs:\n            return\n", "        if name not in self.get_packed_refs():\n            return\n", expect="R7-packed-rewrite-reads-state"),
    Mutant("add_if_new overwrites refs whose symref chain cannot be resolved", TG, "        except (KeyError, IndexError):\n            realname = name\n        self._check_refname(realname)\n        if realname == b\"HEAD\":", "        except (KeyError, IndexError, SymrefLoop):\n            realname = name\n        self._check_refname(realname)\n        if realname == b\"HEAD\":", expect="R2-add-if-new"),
    Mutant("packed removal skipped while nothing is cached", TG, "    def _remove_packed_ref(self, name):\n", "    def _remove_packed_ref(self, name):\n        if self._packed_refs is None:\n            return\n", expect="R7-packed-rewrite-reads-state"),
    Mutant("packed ref removed from the file but not from the cache", TG, "        del self._packed_refs[name]\n        if name in self._peeled_refs:\n            del self._peeled_refs[name]\n        with self.transport.open_write_stream(\"packed-refs\") as f:\n            write_packed_refs(f, self._packed_refs, self._peeled_refs)\n", "        packed_refs = {k: v for k, v in self._packed_refs.items() if k != name}\n        peeled_refs = {k: v for k, v in self._peeled_refs.items() if k != name}\n        with self.transport.open_write_stream(\"packed-refs\") as f:\n            write_packed_refs(f, packed_refs, peeled_refs)\n", expect="R6-packed-cache-follows-file"),
    Mutant("neutral: new packed-refs built on the side, cache replaced after the write", TG, "        del self._packed_refs[name]\n        if name in self._peeled_refs:\n            del self._peeled_refs[name]\n        with self.transport.open_write_stream(\"packed-refs\") as f:\n            write_packed_refs(f, self._packed_refs, self._peeled_refs)\n", "        packed_refs = {k: v for k, v in self._packed_refs.items() if k != name}\n        peeled_refs = {k: v for k, v in self._peeled_refs.items() if k != name}\n        with self.transport.open_write_stream(\"packed-refs\") as f:\n            write_packed_refs(f, packed_refs, peeled_refs)\n        self._packed_refs = packed_refs\n        self._peeled_refs = peeled_refs\n", neutral=True),
    Mutant("absent ref created with set_if_equals(name, None, ...)", IR, "                    try:\n                        old_git_id = old_refs[name][0]\n                    except KeyError:\n                        self.target_refs.add_if_new(name, gitid)\n                    else:\n                        self.target_refs.set_if_equals(name, old_git_id, gitid)\n", "                    old_git_id = old_refs.get(name, (None, None))[0]\n                    self.target_refs.set_if_equals(name, old_git_id, gitid)\n", expect="R5-expected-value-present"),
    Mutant("packed refs consulted before the loose ref", TG, "            orig_ref = self.read_loose_ref(realname)\n            if orig_ref is None:\n                orig_ref = self.get_packed_refs().get(realname, ZERO_SHA)\n", "            orig_ref = self.get_packed_refs().get(realname)\n            if orig_ref is None:\n                orig_ref = self.read_loose_ref(realname) or ZERO_SHA\n", expect="R4-current-value-table"),
    Mutant("neutral: comparison written as one condition", TG, "            if orig_ref != old_ref:\n                return False\n        if realname == b\"HEAD\":", "            if old_ref is not None and orig_ref != old_ref:\n                return False\n        if realname == b\"HEAD\":", neutral=True),
    Mutant("set_if_equals: comparison removed again", TG, _FIX_SET, "", expect="R1-cas-param-guards-write"),
    Mutant("set_if_equals: mismatch returns True", TG, "            if orig_ref != old_ref:\n                return False\n        if realname == b\"HEAD\":", "            if orig_ref != old_ref:\n                return True\n        if realname == b\"HEAD\":", expect="R1-mismatch-returns-false"),
    Mutant("set_if_equals: write hoisted above the comparison", TG, "        if old_ref is not None:\n            orig_ref = self.read_loose_ref(realname)\n", "        self.transport.put_bytes(urlutils.quote_from_bytes(realname), new_ref + b\"\\n\")\n        if old_ref is not None:\n            orig_ref = self.read_loose_ref(realname)\n", expect="R1-cas-param-guards-write"),
    Mutant("set_if_equals: packed refs ignored", TG, "            orig_ref = self.read_loose_ref(realname)\n            if orig_ref is None:\n                orig_ref = self.get_packed_refs().get(realname, ZERO_SHA)\n", "            orig_ref = self.read_loose_ref(realname)\n            if orig_ref is None:\n                orig_ref = ZERO_SHA\n", expect="R4-loose-and-packed"),
    Mutant("add_if_new: existence test dropped", TG, "            if contents is not None:\n                return False\n", "", expect="R2-add-if-new"),
    Mutant("neutral: packed refs read before loose refs", TG, "            orig_ref = self.read_loose_ref(realname)\n            if orig_ref is None:\n                orig_ref = self.get_packed_refs().get(realname, ZERO_SHA)\n", "            orig_ref = self.get_packed_refs().get(realname)\n            loose = self.read_loose_ref(realname)\n            if loose is not None:\n                orig_ref = loose\n            elif orig_ref is None:\n                orig_ref = ZERO_SHA\n", neutral=True),
]
