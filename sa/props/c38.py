"""C38 — all git SHA-map cache backends answer identically: interface agreement (K7)."""

import ast

from ..astutil import call_recv, call_attr, calls_in, const_value, norm, param_names, walk_own
from ..selftest import Mutant

ID = "C38"
TECHNIQUE = "sibling-interface agreement over the GitShaMap / CacheUpdater class hierarchy: override sets, arities, dispatch kinds (ast + in-repo MRO)"
FLOOR = 58
CF = "breezy/git/cache.py"
EXPLANATION = """
K7 over every concrete subclass of breezy/git/cache.py:GitShaMap and CacheUpdater found in the repository on this run:
 * each backend overrides every abstract query of the base (the base methods whose body raises NotImplementedError:
   lookup_git_sha, lookup_blob_id, lookup_tree_id, lookup_commit, revids, sha1s) with the same positional arity — a
   backend that inherits the raising stub answers NotImplementedError where its siblings answer a SHA;
 * each updater's add_object dispatches exactly the object kinds {commit, blob, tree} (string literals compared with the
   type name) and raises on anything else; finish() exists;
 * write-group method triples (start/commit/abort_write_group) are overridden together or not at all, except for a
   tabled backend whose storage commits implicitly.
Added while testing against seeded changes: Also: where an updater writes the sha -> key record it writes the key ->
sha record on every continuation; per-write-group state reset by commit_write_group is reset by abort_write_group;
lookup_git_sha is multi-valued in every backend.
Does not decide: equality of the answers themselves (values stored by each backend).
"""
ASSUMPTIONS = ["backends are compared through their class definitions; registration in the format registry is not part of the rule"]

WG = ("start_write_group", "commit_write_group", "abort_write_group")
WG_EXCEPTIONS = {"SqliteGitShaMap": "sqlite transactions start implicitly; only commit_write_group needs an override"}
KINDS = {"commit", "blob", "tree"}


def _subclasses(repo, base):
    """Classes under breezy/git/ (non-test) whose in-repo MRO contains cache.py:<base>."""
    out = []
    for rel in repo.python_files():
        if not rel.startswith("breezy/git/") or base not in repo.text(rel) and "cache" not in repo.text(rel):
            continue
        for q in repo.module(rel).classes():
            if (rel, q) != (CF, base) and (CF, base) in repo.mro(rel, q):
                out.append((rel, q))
    return sorted(out)


def run(ctx):
    repo = ctx.repo
    base = repo.cls(CF, "GitShaMap")
    abstract = {}
    for item in base.body:
        if isinstance(item, ast.FunctionDef):
            if any(isinstance(n, ast.Raise) and "NotImplementedError" in norm(n) for n in walk_own(item)):
                abstract[item.name] = len([p for p in param_names(item) if p != "self"])
    ctx.require(len(abstract) >= 6, f"only {len(abstract)} abstract queries found on GitShaMap (hand-confirmed: 6)")
    subs = _subclasses(repo, "GitShaMap")
    ctx.require(len(subs) >= 4, f"only {len(subs)} GitShaMap backends found (hand-confirmed: 4)")
    ctx.extra["backends"] = [f"{r}:{q}" for r, q in subs]
    for rel, q in subs:
        for meth, arity in sorted(abstract.items()):
            r = repo.resolve_method(rel, q, meth)
            where = f"{rel}:{q}.{meth}"
            overridden = r is not None and (r[0], r[1]) != (CF, "GitShaMap")
            ctx.check("missing-override", where, overridden, f"{q} implements {meth}", construct=f"{q} inherits GitShaMap.{meth} (raises NotImplementedError)", message=f"{q} does not implement {meth}: it raises NotImplementedError where the sibling backends answer")
            if overridden:
                a2 = len([p for p in param_names(r[2]) if p != "self"])
                ctx.check("arity", where, a2 == arity, f"{q}.{meth} takes {arity} argument(s) like the base", construct=f"{a2} != {arity}", message=f"{q}.{meth} takes {a2} arguments, the interface has {arity}")
        own = {m: repo.module(rel).get(f"{q}.{m}") is not None for m in WG}
        n_own = sum(own.values())
        if q in WG_EXCEPTIONS:
            ctx.info("write-group", f"{rel}:{q}", f"tabled exception: {WG_EXCEPTIONS[q]} (overrides {[m for m in WG if own[m]]})")
        else:
            ctx.check("write-group-triple", f"{rel}:{q}", n_own in (0, 3), f"{q} overrides all or none of {WG}", construct=str(own), message=f"{q} overrides only part of the write-group methods: {own}")
        # whatever per-write-group state commit_write_group resets, abort_write_group resets too: a retry after an
        # aborted group must start from the same state as after a committed one
        fc_ = repo.module(rel).get(f"{q}.commit_write_group")
        fa_ = repo.module(rel).get(f"{q}.abort_write_group")
        if fc_ is not None and fa_ is not None:
            def resets(f):
                out = set()
                for n in walk_own(f):
                    if isinstance(n, ast.Assign) and isinstance(n.targets[0], ast.Attribute) and norm(n.targets[0].value) == "self" and isinstance(n.value, ast.Constant) and n.value.value is None:
                        out.add(n.targets[0].attr)
                    if isinstance(n, ast.Call) and call_attr(n) == "clear" and (call_recv(n) or "").startswith("self."):
                        out.add(call_recv(n)[5:])
                    if isinstance(n, ast.Assign) and isinstance(n.targets[0], ast.Attribute) and norm(n.targets[0].value) == "self" and norm(n.value) in ("set()", "{}", "[]", "dict()", "list()"):
                        out.add(n.targets[0].attr)
                return out

            rc, ra = resets(fc_), resets(fa_)
            ctx.check("write-group-reset-parity", f"{rel}:{q}.abort_write_group", rc <= ra, f"state reset by commit_write_group {sorted(rc)} is also reset by abort_write_group {sorted(ra)}", construct=str(sorted(rc - ra)), message=f"{q}.commit_write_group resets {sorted(rc - ra)} but abort_write_group does not: after an aborted write group the next one starts with stale per-group state (e.g. keys believed to be written are never written again) and this backend answers differently from the others")
    # ---- lookup_git_sha is multi-valued in every backend (the same object can be recorded under several keys) -------
    for rel, q in [(rel_, q_) for rel_, q_ in _subclasses(repo, "GitShaMap")]:
        f = repo.module(rel).get(f"{q}.lookup_git_sha")
        if f is None:
            continue
        ys = [n for n in ast.walk(f) if isinstance(n, (ast.Yield, ast.YieldFrom))]
        multi = any(isinstance(n, ast.YieldFrom) for n in ys) or any(isinstance(l_, (ast.For, ast.While)) and any(isinstance(n, ast.Yield) for n in ast.walk(l_)) for l_ in ast.walk(f))
        ctx.check("lookup-git-sha-multivalued", f"{rel}:{q}.lookup_git_sha", bool(ys) and multi, f"{q}.lookup_git_sha can yield every record stored for the sha (yield inside a loop / yield from)", message=f"{q}.lookup_git_sha yields at most one record per git sha: when the same blob or tree is recorded under several (file id, revision) keys the other backends answer with all of them, this one with the first only")
    ups = _subclasses(repo, "CacheUpdater")
    ctx.require(len(ups) >= 4, f"only {len(ups)} CacheUpdater classes found (hand-confirmed: 4)")
    for rel, q in ups:
        r = repo.resolve_method(rel, q, "add_object")
        where = f"{rel}:{q}.add_object"
        if r is None or (r[0], r[1]) == (CF, "CacheUpdater"):
            ctx.check("updater-kinds", where, False, "add_object implemented", message=f"{q} does not implement add_object")
            continue
        fn = r[2]
        kinds = set()
        for n in walk_own(fn):
            if isinstance(n, ast.Compare) and "type_name" in norm(n.left):
                for c in n.comparators:
                    if isinstance(c, ast.Constant) and isinstance(c.value, str):
                        kinds.add(c.value)
                    elif isinstance(c, (ast.Tuple, ast.List, ast.Set)):
                        kinds |= {e.value for e in c.elts if isinstance(e, ast.Constant) and isinstance(e.value, str)}
        ctx.check("updater-kinds", where, kinds == KINDS, f"{q}.add_object dispatches kinds {sorted(kinds)}", construct=str(sorted(kinds)), message=f"{q}.add_object handles kinds {sorted(kinds)}, siblings handle {sorted(KINDS)}")
        ctx.check("updater-rejects-unknown", where, any(isinstance(n, ast.Raise) and "AssertionError" in norm(n) for n in walk_own(fn)), f"{q}.add_object raises on an unknown kind")
        # where a kind branch writes the sha -> key record it also writes the key -> sha record on every continuation
        # (an early return between the two drops the reverse entry)
        from ..cfg import build_cfg
        from ..rules import calling

        g = build_cfg(fn)
        for kind in ("commit", "blob"):
            fw_ = calling(g, attr="_add_git_sha", argpred=lambda c, k=kind: len(c.args) > 1 and const_value(c.args[1]) == k.encode())
            bw_ = calling(g, attr="_add_node", argpred=lambda c, k=kind: c.args and isinstance(c.args[0], ast.Tuple) and c.args[0].elts and const_value(c.args[0].elts[0]) == k.encode())
            if fw_:
                gx = g.without_exc_edges()
                r_ = gx.reach(fw_, avoid=set(bw_))
                ctx.check("updater-both-directions", where, bool(bw_) and gx.exit not in r_, f"{q}.add_object: after the sha -> {kind} record the ({kind}, …) -> sha record is written on every path", message=f"{q}.add_object can record the git sha of a {kind} without the reverse ({kind} key -> sha) entry: lookup_{'blob_id' if kind == 'blob' else 'commit'} raises KeyError on this backend for objects the other backends know")
        rf = repo.resolve_method(rel, q, "finish")
        ctx.check("updater-finish", f"{rel}:{q}.finish", rf is not None and (rf[0], rf[1]) != (CF, "CacheUpdater"), f"{q} implements finish()")


MUTANTS = [
    Mutant("index updater skips the blob key for known content", CF, "            self.cache.idmap._add_git_sha(hexsha, b\"blob\", bzr_key_data)\n            self.cache.idmap._add_node(", "            self.cache.idmap._add_git_sha(hexsha, b\"blob\", bzr_key_data)\n            if bzr_key_data is None:\n                return\n            self.cache.idmap._add_node(", expect="updater-both-directions"),
    Mutant("per-group state cleared on commit only", CF, "        self._index.insert_index(0, index)\n        self._builder = None\n        self._name = None\n", "        self._index.insert_index(0, index)\n        self._builder = None\n        self._name = None\n        self._seen = set()\n", expect="write-group-reset-parity"),
    Mutant("neutral: helper method added to a backend", CF, "class IndexGitShaMap(GitShaMap):", "class IndexGitShaMap(GitShaMap):\n    def _placeholder(self):\n        pass\n", neutral=True),
    Mutant("Tdb backend loses lookup_blob_id", CF, "    def lookup_blob_id(self, fileid, revision):\n        \"\"\"Retrieve a Git blob SHA by file ID and revision from TDB.", "    def _lookup_blob_id_unused(self, fileid, revision):\n        \"\"\"Retrieve a Git blob SHA by file ID and revision from TDB.", expect="missing-override", where="TdbGitShaMap.lookup_blob_id"),
    Mutant("arity of one backend's lookup_git_sha changed", CF, "class DictGitShaMap(GitShaMap):", "class DictGitShaMapBase(GitShaMap):\n    def lookup_git_sha(self, sha, strict):\n        raise KeyError(sha)\n\n\nclass DictGitShaMap(DictGitShaMapBase):", expect="arity"),
    Mutant("Tdb updater stops handling trees", CF, "            type_data = bzr_key_data\n        elif type_name == \"tree\":\n            if bzr_key_data is None:\n                return\n            type_data = bzr_key_data\n        else:", "            type_data = bzr_key_data\n        else:", expect="updater-kinds"),
]
