"""C38 — all git SHA-map cache backends answer identically: interface agreement (K7)."""

import ast

from ..astutil import call_recv, call_attr, calls_in, const_value, norm, param_names, walk_own
from ..selftest import Mutant

ID = "C38"
TECHNIQUE = "sibling-interface agreement over the GitShaMap / CacheUpdater class hierarchy: override sets, arities, dispatch kinds (ast + in-repo MRO)"
FLOOR = 77
CF = "breezy/git/cache.py"
EXPLANATION = """
K7 over every concrete subclass of breezy/git/cache.py:GitShaMap and CacheUpdater found in the repository on this run:
 * each backend overrides every abstract query of the base (the base methods whose body raises NotImplementedError:
   lookup_git_sha, lookup_blob_id, lookup_tree_id, lookup_commit, revids, sha1s) with the same positional arity — a
   backend that inherits the raising stub answers NotImplementedError where its siblings answer a SHA;
 * each updater's add_object dispatches exactly the object kinds {commit, blob, tree} (string literals compared with the
   type name) and raises on anything else; finish() exists;
 * write-group method triples (start/commit/abort_write_group) are overridden together or not at all, except for a
   tabled backend whose storage commits implicitly.
Added while testing against seeded changes: Also: where an updater writes the sha -> key record it writes the key ->
sha record on every continuation; per-write-group state reset by commit_write_group is reset by abort_write_group;
lookup_git_sha is multi-valued in every backend; both forms of an object handed to add_object (object, (type, sha)
reference) reach the kind dispatch; in a backend with a committed and a pending index store every method that looks
keys up in one looks them up in the other (transitively through helpers of the class); the digest that names the file
a write group produces is fed exactly where a node is added to the pending store.
Third round: abort-forgets-uncommitted — every self attribute the non-lifecycle methods of a map class change is reset by its
abort_write_group; rows-unique-by-owner-only — the sqlite schema script has no uniqueness on blobs or trees narrower than
(fileid, revid).
Does not decide: equality of the answers themselves (values stored by each backend).
"""
ASSUMPTIONS = ["backends are compared through their class definitions; registration in the format registry is not part of the rule"]

WG = ("start_write_group", "commit_write_group", "abort_write_group")
WG_EXCEPTIONS = {"SqliteGitShaMap": "sqlite transactions start implicitly; only commit_write_group needs an override"}
KINDS = {"commit", "blob", "tree"}


def _subclasses(repo, base):
    """Classes under breezy/git/ (non-test) whose in-repo MRO contains cache.py:<base>."""
    out = []
    for rel in repo.python_files():
        if not rel.startswith("breezy/git/") or base not in repo.text(rel) and "cache" not in repo.text(rel):
            continue
        for q in repo.module(rel).classes():
            if (rel, q) != (CF, base) and (CF, base) in repo.mro(rel, q):
                out.append((rel, q))
    return sorted(out)


def run(ctx):
    repo = ctx.repo
    base = repo.cls(CF, "GitShaMap")
    abstract = {}
    for item in base.body:
        if isinstance(item, ast.FunctionDef):
            if any(isinstance(n, ast.Raise) and "NotImplementedError" in norm(n) for n in walk_own(item)):
                abstract[item.name] = len([p for p in param_names(item) if p != "self"])
    ctx.require(len(abstract) >= 6, f"only {len(abstract)} abstract queries found on GitShaMap (hand-confirmed: 6)")
    subs = _subclasses(repo, "GitShaMap")
    ctx.require(len(subs) >= 4, f"only {len(subs)} GitShaMap backends found (hand-confirmed: 4)")
    ctx.extra["backends"] = [f"{r}:{q}" for r, q in subs]
    for rel, q in subs:
        for meth, arity in sorted(abstract.items()):
            r = repo.resolve_method(rel, q, meth)
            where = f"{rel}:{q}.{meth}"
            overridden = r is not None and (r[0], r[1]) != (CF, "GitShaMap")
            ctx.check("missing-override", where, overridden, f"{q} implements {meth}", construct=f"{q} inherits GitShaMap.{meth} (raises NotImplementedError)", message=f"{q} does not implement {meth}: it raises NotImplementedError where the sibling backends answer")
            if overridden:
                a2 = len([p for p in param_names(r[2]) if p != "self"])
                ctx.check("arity", where, a2 == arity, f"{q}.{meth} takes {arity} argument(s) like the base", construct=f"{a2} != {arity}", message=f"{q}.{meth} takes {a2} arguments, the interface has {arity}")
        own = {m: repo.module(rel).get(f"{q}.{m}") is not None for m in WG}
        n_own = sum(own.values())
        if q in WG_EXCEPTIONS:
            ctx.info("write-group", f"{rel}:{q}", f"tabled exception: {WG_EXCEPTIONS[q]} (overrides {[m for m in WG if own[m]]})")
        else:
            ctx.check("write-group-triple", f"{rel}:{q}", n_own in (0, 3), f"{q} overrides all or none of {WG}", construct=str(own), message=f"{q} overrides only part of the write-group methods: {own}")
        # whatever per-write-group state commit_write_group resets, abort_write_group resets too: a retry after an
        # aborted group must start from the same state as after a committed one
        fc_ = repo.module(rel).get(f"{q}.commit_write_group")
        fa_ = repo.module(rel).get(f"{q}.abort_write_group")
        if fc_ is not None and fa_ is not None:
            def resets(f):
                out = set()
                for n in walk_own(f):
                    if isinstance(n, ast.Assign) and isinstance(n.targets[0], ast.Attribute) and norm(n.targets[0].value) == "self" and isinstance(n.value, ast.Constant) and n.value.value is None:
                        out.add(n.targets[0].attr)
                    if isinstance(n, ast.Call) and call_attr(n) == "clear" and (call_recv(n) or "").startswith("self."):
                        out.add(call_recv(n)[5:])
                    if isinstance(n, ast.Assign) and isinstance(n.targets[0], ast.Attribute) and norm(n.targets[0].value) == "self" and norm(n.value) in ("set()", "{}", "[]", "dict()", "list()"):
                        out.add(n.targets[0].attr)
                return out

            rc, ra = resets(fc_), resets(fa_)
            ctx.check("write-group-reset-parity", f"{rel}:{q}.abort_write_group", rc <= ra, f"state reset by commit_write_group {sorted(rc)} is also reset by abort_write_group {sorted(ra)}", construct=str(sorted(rc - ra)), message=f"{q}.commit_write_group resets {sorted(rc - ra)} but abort_write_group does not: after an aborted write group the next one starts with stale per-group state (e.g. keys believed to be written are never written again) and this backend answers differently from the others")
    # ---- lookup_git_sha is multi-valued in every backend (the same object can be recorded under several keys) -------
    for rel, q in [(rel_, q_) for rel_, q_ in _subclasses(repo, "GitShaMap")]:
        f = repo.module(rel).get(f"{q}.lookup_git_sha")
        if f is None:
            continue
        ys = [n for n in ast.walk(f) if isinstance(n, (ast.Yield, ast.YieldFrom))]
        multi = any(isinstance(n, ast.YieldFrom) for n in ys) or any(isinstance(l_, (ast.For, ast.While)) and any(isinstance(n, ast.Yield) for n in ast.walk(l_)) for l_ in ast.walk(f))
        ctx.check("lookup-git-sha-multivalued", f"{rel}:{q}.lookup_git_sha", bool(ys) and multi, f"{q}.lookup_git_sha can yield every record stored for the sha (yield inside a loop / yield from)", message=f"{q}.lookup_git_sha yields at most one record per git sha: when the same blob or tree is recorded under several (file id, revision) keys the other backends answer with all of them, this one with the first only")
    # ---- a backend with a committed store and a pending (write-group) store reads both together ---------------------
    # Any method that looks keys up in one of the two (directly or through a helper of the class) looks them up in the
    # other as well: an existence check that asks only the pending builder stores a key a second time, a query that
    # asks only the committed indices does not see what lookup_* already answers.
    n_two = 0
    for rel, q in subs:
        cls = repo.cls(rel, q)
        stores = {}
        for n in ast.walk(cls):
            if isinstance(n, ast.Assign) and isinstance(n.targets[0], ast.Attribute) and norm(n.targets[0].value) == "self" and isinstance(n.value, ast.Call):
                ctor = (norm(n.value.func)).rsplit(".", 1)[-1]
                if ctor == "CombinedGraphIndex":
                    stores[n.targets[0].attr] = "committed"
                elif ctor == "BTreeBuilder":
                    stores[n.targets[0].attr] = "pending"
        if set(stores.values()) != {"committed", "pending"}:
            continue
        n_two += 1
        meths = {m.name: m for m in cls.body if isinstance(m, ast.FunctionDef)}
        direct = {m: set() for m in meths}
        callees = {m: set() for m in meths}
        for m, f in meths.items():
            for c in calls_in(f):
                rv = call_recv(c) or ""
                if rv.startswith("self.") and rv[5:] in stores and call_attr(c) in ("iter_entries", "iter_entries_prefix"):
                    direct[m].add(stores[rv[5:]])
                if rv == "self" and call_attr(c) in meths:
                    callees[m].add(call_attr(c))
        reads = {m: set(v) for m, v in direct.items()}
        changed = True
        while changed:
            changed = False
            for m in meths:
                for c in callees[m]:
                    if not reads[c] <= reads[m]:
                        reads[m] |= reads[c]
                        changed = True
        readers = sorted(m for m in meths if reads[m])
        ctx.require(len(readers) >= 4, f"{rel}:{q}: only {len(readers)} methods read the index stores (hand-confirmed: >= 8)")
        for m in readers:
            ctx.check("stores-read-together", f"{rel}:{q}.{m}", reads[m] == {"committed", "pending"}, f"{q}.{m} consults the committed indices and the pending builder", construct=f"{q}.{m} reads only the {sorted(reads[m])} store", message=f"{q}.{m} looks keys up only in the {sorted(reads[m])[0]} store of the index backend: " + ("an existence check that ignores the committed indices writes a key again (a second, possibly different value for the same key), and a query that ignores them forgets everything from earlier write groups" if reads[m] == {"pending"} else "entries added in the open write group are invisible to it although the sibling queries (and the other backends) already answer for them"))
        # the file a write group produces is named by a digest: that digest covers exactly what is added to the
        # pending store.  A digest fed from anything else (everything offered, added or not) repeats when known objects
        # are offered again, and the earlier file is overwritten by the new, emptier one.
        pend = [a for a, k in stores.items() if k == "pending"]
        digests = set()
        for n in ast.walk(cls):
            if isinstance(n, ast.Assign) and isinstance(n.targets[0], ast.Attribute) and norm(n.targets[0].value) == "self" and isinstance(n.value, ast.Call) and norm(n.value.func).startswith("hashlib."):
                digests.add(n.targets[0].attr)
        if digests:
            from ..cfg import build_cfg

            n_upd = n_add = 0
            for m, f in meths.items():
                g = build_cfg(f)
                gx = g.without_exc_edges()
                upd = [nd.id for nd in gx.nodes for c in nd.calls() if call_attr(c) == "update" and (call_recv(c) or "")[5:] in digests and (call_recv(c) or "").startswith("self.")]
                add = [nd.id for nd in gx.nodes for c in nd.calls() if call_attr(c) == "add_node" and (call_recv(c) or "")[5:] in pend and (call_recv(c) or "").startswith("self.")]
                n_upd += len(upd)
                n_add += len(add)
                for u_ in upd:
                    ok = bool(add) and (gx.always_before(add, [u_]) or gx.exit not in gx.reach([u_], avoid=set(add)))
                    ctx.check("file-name-covers-content", f"{rel}:{q}.{m}", ok, f"{q}.{m}: the name digest is fed only together with a node added to the pending index", construct=gx.nodes[u_].text(), message=f"{q}.{m} feeds the digest that names the new index file at `{gx.nodes[u_].text()[:60]}` without adding a node on that path: offering already-known objects again reproduces the name of an earlier file, which is then overwritten by an index that lacks its entries — after re-opening, this backend has forgotten revisions the others still know")
                for a_ in add:
                    ok = bool(upd) and (gx.always_before(upd, [a_]) or gx.exit not in gx.reach([a_], avoid=set(upd)))
                    ctx.check("file-name-covers-content", f"{rel}:{q}.{m}", ok, f"{q}.{m}: every node added to the pending index is folded into the file name", construct=gx.nodes[a_].text(), message=f"{q}.{m} adds a node at `{gx.nodes[a_].text()[:60]}` that does not enter the digest naming the file: two write groups with different content can produce the same file name and the second overwrites the first")
            ctx.require(n_upd >= 1 and n_add >= 1, f"{rel}:{q}: digest updates ({n_upd}) / pending adds ({n_add}) not found")
    ctx.require(n_two >= 1, "no backend with a committed and a pending index store found (hand-confirmed: IndexGitShaMap)")
    ups = _subclasses(repo, "CacheUpdater")
    ctx.require(len(ups) >= 4, f"only {len(ups)} CacheUpdater classes found (hand-confirmed: 4)")
    for rel, q in ups:
        r = repo.resolve_method(rel, q, "add_object")
        where = f"{rel}:{q}.add_object"
        if r is None or (r[0], r[1]) == (CF, "CacheUpdater"):
            ctx.check("updater-kinds", where, False, "add_object implemented", message=f"{q} does not implement add_object")
            continue
        fn = r[2]
        kinds = set()
        for n in walk_own(fn):
            if isinstance(n, ast.Compare) and "type_name" in norm(n.left):
                for c in n.comparators:
                    if isinstance(c, ast.Constant) and isinstance(c.value, str):
                        kinds.add(c.value)
                    elif isinstance(c, (ast.Tuple, ast.List, ast.Set)):
                        kinds |= {e.value for e in c.elts if isinstance(e, ast.Constant) and isinstance(e.value, str)}
        ctx.check("updater-kinds", where, kinds == KINDS, f"{q}.add_object dispatches kinds {sorted(kinds)}", construct=str(sorted(kinds)), message=f"{q}.add_object handles kinds {sorted(kinds)}, siblings handle {sorted(KINDS)}")
        ctx.check("updater-rejects-unknown", where, any(isinstance(n, ast.Raise) and "AssertionError" in norm(n) for n in walk_own(fn)), f"{q}.add_object raises on an unknown kind")
        # where a kind branch writes the sha -> key record it also writes the key -> sha record on every continuation
        # (an early return between the two drops the reverse entry)
        from ..cfg import build_cfg
        from ..rules import calling, edges_out, test_nodes

        g = build_cfg(fn)
        for kind in ("commit", "blob"):
            fw_ = calling(g, attr="_add_git_sha", argpred=lambda c, k=kind: len(c.args) > 1 and const_value(c.args[1]) == k.encode())
            bw_ = calling(g, attr="_add_node", argpred=lambda c, k=kind: c.args and isinstance(c.args[0], ast.Tuple) and c.args[0].elts and const_value(c.args[0].elts[0]) == k.encode())
            if fw_:
                gx = g.without_exc_edges()
                r_ = gx.reach(fw_, avoid=set(bw_))
                ctx.check("updater-both-directions", where, bool(bw_) and gx.exit not in r_, f"{q}.add_object: after the sha -> {kind} record the ({kind}, …) -> sha record is written on every path", message=f"{q}.add_object can record the git sha of a {kind} without the reverse ({kind} key -> sha) entry: lookup_{'blob_id' if kind == 'blob' else 'commit'} raises KeyError on this backend for objects the other backends know")
        # both forms of `obj` — a real object and a (type name, hexsha) reference — reach the kind dispatch: a
        # reference that returns before it leaves the key -> sha record unwritten on this backend only
        p0 = [p for p in param_names(fn) if p != "self"][:1]
        ref_tests = test_nodes(g, lambda t: isinstance(t, ast.Call) and norm(t.func) == "isinstance" and len(t.args) == 2 and p0 and norm(t.args[0]) == p0[0] and norm(t.args[1]) == "tuple")
        kind_tests = test_nodes(g, lambda t: any(isinstance(n, ast.Compare) and any(isinstance(c, ast.Constant) and c.value in KINDS for c in n.comparators) for n in ast.walk(t)))
        ctx.check("updater-reference-form-dispatched", where, bool(ref_tests) and bool(kind_tests), f"{q}.add_object distinguishes the reference form of `{p0[0] if p0 else '?'}` and dispatches on the kind")
        if ref_tests and kind_tests:
            gx = g.without_exc_edges()
            for lab, form in (("T", "reference (type name, hexsha)"), ("F", "object")):
                srcs = [b for t in ref_tests for (_a, b, _l) in edges_out(gx, t, lab)]
                r_ = gx.reach(srcs, avoid=set(kind_tests), include_src=True)
                w = gx.path(srcs, [gx.exit], avoid=set(kind_tests)) if gx.exit in r_ else None
                ctx.check("updater-reference-form-dispatched", where, gx.exit not in r_, f"{q}.add_object: the {form} form reaches the kind dispatch on every normal path", construct=f"{form} form returns before the kind dispatch", message=f"{q}.add_object returns for the {form} form of an object before dispatching on its kind: nothing is recorded for it on this backend, so lookup_blob_id / lookup_tree_id raise KeyError here for entries the sibling backends answer", witness=gx.show_path(w) if w else None)
        rf = repo.resolve_method(rel, q, "finish")
        ctx.check("updater-finish", f"{rel}:{q}.finish", rf is not None and (rf[0], rf[1]) != (CF, "CacheUpdater"), f"{q} implements finish()")

    # ---- an aborted write group is forgotten: whatever the adders change on the map is reset by abort_write_group --------
    MUT = {"add", "update", "append", "extend", "insert", "setdefault", "pop", "remove", "discard", "clear", "add_node", "add_nodes"}

    def _muts(f):
        out = set()
        for n in ast.walk(f):
            if isinstance(n, (ast.Assign, ast.AugAssign)):
                for t in n.targets if isinstance(n, ast.Assign) else [n.target]:
                    if isinstance(t, ast.Attribute) and norm(t.value) == "self":
                        out.add(t.attr)
                    if isinstance(t, ast.Subscript) and isinstance(t.value, ast.Attribute) and norm(t.value.value) == "self":
                        out.add(t.value.attr)
            if isinstance(n, ast.Call) and call_attr(n) in MUT and (call_recv(n) or "").startswith("self.") and (call_recv(n) or "").count(".") == 1:
                out.add(call_recv(n)[5:])
        return out

    n_abort = 0
    for cname, cls in repo.module(CF).classes().items():
        ms = {b.name: b for b in cls.body if isinstance(b, ast.FunctionDef)}
        if "abort_write_group" not in ms or not _muts(ms["abort_write_group"]):
            continue
        n_abort += 1
        lifecycle = {"__init__", "start_write_group", "commit_write_group", "abort_write_group", "repack"}
        during = {}
        for mname, f in ms.items():
            if mname not in lifecycle:
                for a in _muts(f):
                    during.setdefault(a, mname)
        kept = sorted(a for a in during if a not in _muts(ms["abort_write_group"]))
        ctx.check("abort-forgets-uncommitted", f"{CF}:{cname}.abort_write_group", not kept, f"every attribute the adders of {cname} change ({sorted(during)}) is reset by abort_write_group", construct=str([(a, during[a]) for a in kept]), message=f"{cname}.{during[kept[0]] if kept else ''} records state in self.{kept[0] if kept else ''} that abort_write_group does not reset: what was offered during an aborted write group still counts as known, a retry on the same map skips it and the index backend then answers KeyError where the dict and sqlite backends answer")
    ctx.require(n_abort >= 1, f"{CF}: no map class with a resetting abort_write_group found (hand-confirmed: IndexGitShaMap)")
    # ---- sqlite schema: the only uniqueness on blobs is the bzr-side key ------------------------------------------------
    import re as _re

    fsq = repo.func(CF, "SqliteGitShaMap.__init__")
    script = " ".join(n.value for n in ast.walk(fsq) if isinstance(n, ast.Constant) and isinstance(n.value, str) and "create table" in n.value.lower())
    ctx.require("blobs" in script, f"{CF}:SqliteGitShaMap.__init__: schema script not found")
    uniq = [(m.group(1), tuple(c.strip() for c in m.group(2).split(","))) for m in _re.finditer(r"create\s+unique\s+index\s+(?:if\s+not\s+exists\s+)?\w+\s+on\s+(\w+)\s*\(([^)]*)\)", script, _re.I)]
    for table in ("blobs", "trees"):
        tbl = _re.search(r"create\s+table\s+(?:if\s+not\s+exists\s+)?" + table + r"\s*\((.*?)\)\s*;", script, _re.I | _re.S)
        ctx.require(tbl is not None, f"{CF}:SqliteGitShaMap.__init__: table {table} not found in the schema script")
        cols_src, depth, cur = [], 0, ""
        for ch in tbl.group(1):
            depth += ch == "("
            depth -= ch == ")"
            if ch == "," and depth == 0:
                cols_src.append(cur)
                cur = ""
            else:
                cur += ch
        cols_src.append(cur)
        col_uniq = [c.split()[0] for c in cols_src if c.strip() and _re.search(r"\b(unique|primary\s+key)\b", c, _re.I)]
        narrow = [f"unique index on {table}({', '.join(cols)})" for t, cols in uniq if t == table and not {"fileid", "revid"} <= set(cols)] + [f"column {c} unique" for c in col_uniq]
        ctx.check("rows-unique-by-owner-only", f"{CF}:SqliteGitShaMap.__init__[{table}]", not narrow and any(t == table and set(cols) == {"fileid", "revid"} for t, cols in uniq), f"the {table} table is unique on (fileid, revid) only — two entries with the same content keep their own rows, as in the dict backend", construct="; ".join(narrow), message=f"the sqlite schema makes {table} unique by {narrow}: recording a second entry with the same content (`replace into {table}`) deletes the first owner's row, the lookup by (file id, revision) raises KeyError for it while the dict backend answers")

MUTANTS = [
    Mutant("sqlite blobs unique by content hash", CF, "        create index if not exists blobs_sha1 on blobs(sha1);\n", "        create unique index if not exists blobs_sha1 on blobs(sha1);\n", expect="rows-unique-by-owner-only"),
    Mutant("index map remembers keys across an abort", CF, "            self._name.update(b\"\\0\".join(key) + b\"\\0\" + value + b\"\\n\")\n            return False\n", "            self._name.update(b\"\\0\".join(key) + b\"\\0\" + value + b\"\\n\")\n            self.__dict__.setdefault('_seen', set())\n            self._seen.add(key)\n            return False\n", expect="abort-forgets-uncommitted"),
    Mutant("index file named after everything offered", CF, "        if hexsha is not None:\n            if type == b\"commit\":\n", "        if hexsha is not None:\n            self._name.update(hexsha)\n            if type == b\"commit\":\n", expect="file-name-covers-content"),
    Mutant("added nodes no longer enter the file name", CF, "            self._name.update(b\"\\0\".join(key) + b\"\\0\" + value + b\"\\n\")\n", "", expect="file-name-covers-content"),
    Mutant("index existence check asks only the pending builder", CF, "        try:\n            self._get_entry(key)\n        except KeyError:\n            self._builder.add_node(key, value)\n", "        try:\n            if next(self._builder.iter_entries([key]), None) is None:\n                raise KeyError(key)\n        except KeyError:\n            self._builder.add_node(key, value)\n", expect="stores-read-together"),
    Mutant("missing_revisions forgets the open write group", CF, "        if self._builder is not None:\n            # Revisions added in the open write group are known as well.\n            for _, key, _value in self._builder.iter_entries(keys):\n                missing_revids.discard(key[1])\n", "", expect="stores-read-together", where="missing_revisions"),
    Mutant("sqlite updater ignores object references", CF, "        if isinstance(obj, tuple):\n            (type_name, hexsha) = obj\n        else:\n            type_name = obj.type_name.decode(\"ascii\")\n            hexsha = obj.id\n        if not isinstance(hexsha, bytes):\n            raise TypeError(hexsha)\n        if type_name == \"commit\":\n            self._commit = obj\n            if not isinstance(bzr_key_data, dict):\n                raise TypeError(bzr_key_data)\n            self._testament3_sha1", "        if isinstance(obj, tuple):\n            return\n        else:\n            type_name = obj.type_name.decode(\"ascii\")\n            hexsha = obj.id\n        if not isinstance(hexsha, bytes):\n            raise TypeError(hexsha)\n        if type_name == \"commit\":\n            self._commit = obj\n            if not isinstance(bzr_key_data, dict):\n                raise TypeError(bzr_key_data)\n            self._testament3_sha1", expect="updater-reference-form-dispatched"),
    Mutant("neutral: existence check keeps the entry in a local", CF, "        try:\n            self._get_entry(key)\n        except KeyError:\n            self._builder.add_node(key, value)\n", "        try:\n            _known = self._get_entry(key)\n        except KeyError:\n            self._builder.add_node(key, value)\n", neutral=True),
    Mutant("index updater skips the blob key for known content", CF, "            self.cache.idmap._add_git_sha(hexsha, b\"blob\", bzr_key_data)\n            self.cache.idmap._add_node(", "            self.cache.idmap._add_git_sha(hexsha, b\"blob\", bzr_key_data)\n            if bzr_key_data is None:\n                return\n            self.cache.idmap._add_node(", expect="updater-both-directions"),
    Mutant("per-group state cleared on commit only", CF, "        self._index.insert_index(0, index)\n        self._builder = None\n        self._name = None\n", "        self._index.insert_index(0, index)\n        self._builder = None\n        self._name = None\n        self._seen = set()\n", expect="write-group-reset-parity"),
    Mutant("neutral: helper method added to a backend", CF, "class IndexGitShaMap(GitShaMap):", "class IndexGitShaMap(GitShaMap):\n    def _placeholder(self):\n        pass\n", neutral=True),
    Mutant("Tdb backend loses lookup_blob_id", CF, "    def lookup_blob_id(self, fileid, revision):\n        \"\"\"Retrieve a Git blob SHA by file ID and revision from TDB.", "    def _lookup_blob_id_unused(self, fileid, revision):\n        \"\"\"Retrieve a Git blob SHA by file ID and revision from TDB.", expect="missing-override", where="TdbGitShaMap.lookup_blob_id"),
    Mutant("arity of one backend's lookup_git_sha changed", CF, "class DictGitShaMap(GitShaMap):", "class DictGitShaMapBase(GitShaMap):\n    def lookup_git_sha(self, sha, strict):\n        raise KeyError(sha)\n\n\nclass DictGitShaMap(DictGitShaMapBase):", expect="arity"),
    Mutant("Tdb updater stops handling trees", CF, "            type_data = bzr_key_data\n        elif type_name == \"tree\":\n            if bzr_key_data is None:\n                return\n            type_data = bzr_key_data\n        else:", "            type_data = bzr_key_data\n        else:", expect="updater-kinds"),
]
