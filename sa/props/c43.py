"""C43 — incremental upload: category/kind exhaustiveness, two-stage renames and the marker-last ordering.

That the remote directory *equals* the uploaded tree after every sequence is value equality over histories and is not
decided.  Decided are the structural necessary conditions visible in BzrUploader.upload_tree and its rename helpers."""

import ast

from ..astutil import call_attr, call_recv, calls_in, const_value, norm, walk_own
from ..rules import calling, fn_cfg, k1_before, need
from ..selftest import Mutant

ID = "C43"
TECHNIQUE = "exhaustiveness of the change-category and kind dispatch (K6), CFG ordering of the upload phases with exception edges (K1/K3), two-stage rename table (K6/K1) in the upload plugin (ast)"
FLOOR = 27
UP = "breezy/plugins/upload/cmds.py"
U = "BzrUploader"
EXPLANATION = """
U1 (K6) upload_tree walks every category of the tree delta it computes — removed, renamed, kind_changed, added (+copied)
and modified — each in its own loop; in every loop the kinds file / directory / symlink are dispatched explicitly and the
loops over new content (kind_changed, added, modified) end in `raise NotImplementedError` for anything else: no change
of the delta is silently skipped.
U2 (K1/K3) phases: removals, then renames, then finish_renames() and finish_deletions(), then kind changes, additions and
modifications; set_uploaded_revid(self.rev_id) — the marker the next incremental upload starts from — is the last
statement: no upload, delete or rename follows it, and it is not reached from a failure of any of them.
U3 (K6/K1) renames are two-stage: rename_remote moves the old path to a unique temporary name and records
(temporary name, new path); finish_renames moves every recorded temporary name to its final path and clears the list; so
a swap of two names cannot overwrite either file. Directory deletions are deferred (delete_remote_dir_maybe) until
finish_deletions(), after the renames out of those directories.
U4 ignored paths: every loop tests self.is_ignored(...) before touching the remote side.
U5 a change leaves its loop iteration early only through the is_ignored test, and every normal way through a kind arm
performs a remote operation (upload_* / delete_remote* / rename_remote / make_remote*).
U6 cmd_upload.run calls upload_full_tree() (which deletes nothing) only under the user's `full` option and never
reassigns it.
U7 (third round) is_ignored decides on whole path components: glob.match on the path and on its os.path.dirname ancestors; no
   startswith/find/`in` test of one path string against another without a trailing separator.
U8 (fourth round) at both BzrUploader(...) constructions the tree argument is revision_tree(<the revision id argument>). U9 _uploaded_revid is
   assigned only inside BzrUploader's own methods (who-may-write).
Does not decide: equality of the remote directory with the tree (values), the full-upload path, remote transport semantics.
"""
CATS = ["removed", "renamed", "kind_changed", "added", "modified"]
REMOTE_OPS = {"upload_file", "upload_symlink", "make_remote_dir", "delete_remote_file", "delete_remote_dir", "delete_remote_dir_maybe", "rename_remote", "_up_rename", "_up_delete", "_up_put_bytes", "_up_mkdir", "_up_rmdir", "_up_symlink"}


def run(ctx):
    repo = ctx.repo
    fn, g, where = fn_cfg(ctx, UP, f"{U}.upload_tree", roles={"changes": ("assign", "~self\\.tree\\.changes_from\\(.*\\)")})
    loops = [n for n in walk_own(fn) if isinstance(n, ast.For) and isinstance(n.target, ast.Name) and norm(n.iter).startswith("changes.")]
    cats = [norm(l.iter) for l in loops]
    seen = set()
    for c in cats:
        for part in c.replace(" ", "").split("+"):
            seen.add(part.split(".", 1)[1])
    # ---- U1 -----------------------------------------------------------------------------------
    ctx.check("U1-categories-exhaustive", where, set(CATS) <= seen, f"every delta category is walked: {sorted(seen)}", construct=str(sorted(set(CATS) - seen)), message=f"upload_tree no longer walks the delta categories {sorted(set(CATS) - seen)}: those changes never reach the remote directory")
    for l in loops:
        cat = norm(l.iter)
        v = l.target.id
        kinds = set()
        for n in ast.walk(l):
            if isinstance(n, ast.Compare) and norm(n.left).startswith(f"{v}.kind[") and len(n.ops) == 1:
                for c in n.comparators:
                    if isinstance(c, ast.Constant):
                        kinds.add(c.value)
                    elif isinstance(c, (ast.Tuple, ast.List, ast.Set)):
                        kinds |= {e.value for e in c.elts if isinstance(e, ast.Constant)}
        if cat == "changes.renamed":
            continue  # a rename moves whatever is there; content changes are re-uploaded by path
        want = {"file", "symlink"} if cat == "changes.modified" else {"file", "directory", "symlink"}  # a directory has no content to modify
        ctx.check("U1-kinds-dispatched", f"{where}[{cat}]", want <= kinds, f"{cat}: kinds dispatched {sorted(kinds)}", construct=str(sorted(kinds)), message=f"the loop over {cat} handles only kinds {sorted(kinds)}: entries of the other kinds are skipped and the remote directory differs from the tree")
        if cat != "changes.removed":
            ctx.check("U1-kinds-dispatched", f"{where}[{cat}]", any(isinstance(n, ast.Raise) and "NotImplementedError" in norm(n) for n in ast.walk(l)), f"{cat}: an unknown kind raises NotImplementedError (nothing is skipped silently)")
        ig = [n for n in l.body if isinstance(n, ast.If) and any(call_attr(c) == "is_ignored" for c in calls_in(n.test))]
        first_remote = min([c.lineno for c in calls_in(l) if call_attr(c) in REMOTE_OPS] or [10**9])
        ctx.check("U4-ignored-paths-first", f"{where}[{cat}]", bool(ig) and ig[0].lineno < first_remote, f"{cat}: is_ignored is tested before the first remote operation")
    # ---- U2 -----------------------------------------------------------------------------------
    mark = need(where, calling(g, attr="set_uploaded_revid", recv="self"), "self.set_uploaded_revid(self.rev_id)")
    ops = [i for i in range(len(g.nodes)) if any(call_attr(c) in REMOTE_OPS | {"finish_renames", "finish_deletions"} and call_recv(c) == "self" for c in g.nodes[i].calls())]
    need(where, ops, "remote operations")
    incr_mark = [m for m in mark if any(m in g.reach([o]) for o in ops)]
    need(where, incr_mark, "marker write after the incremental operations")
    after = set()
    for m in incr_mark:
        after |= g.reach([m])
    ctx.check("U2-marker-last", where, not (set(ops) & after), "nothing is uploaded, deleted or renamed after the uploaded-revision marker was written", construct="; ".join(g.nodes[i].text()[:40] for i in sorted(set(ops) & after)), message="remote operations follow set_uploaded_revid(): a failure among them leaves the marker naming a revision the remote directory does not hold, and the next incremental upload starts from the wrong base")
    # the one tolerated failure: a transport that cannot create symlinks (TransportNotPossible around upload_symlink)
    from ..astutil import handler_types

    hs = [h for h in ast.walk(fn) if isinstance(h, ast.ExceptHandler)]
    tolerated = all({t.split(".")[-1] for t in handler_types(h)} == {"TransportNotPossible"} for h in hs)
    trys = [t for t in ast.walk(fn) if isinstance(t, ast.Try)]
    only_symlink = all({call_attr(c) for s_ in t.body for c in calls_in(s_) if call_recv(c) == "self"} <= {"upload_symlink"} for t in trys)
    ctx.check("U2-marker-last", where, tolerated and only_symlink, "the only failure upload_tree swallows is TransportNotPossible from upload_symlink (a transport without symlink support)", construct=str([sorted(handler_types(h)) for h in hs]), message="upload_tree swallows a failure of a remote operation other than 'symlinks not possible': the upload goes on and the marker is written although the remote directory is incomplete")
    xs = [b for o in ops for (b, l_) in g.succ[o] if l_ == "X" and not any(call_attr(c) == "upload_symlink" for c in g.nodes[o].calls())]
    ctx.check("U2-marker-last", where, not (set(incr_mark) & g.reach(xs, include_src=True)) if xs else True, "a failed remote operation never reaches the marker write")
    ctx.check("U2-marker-last", where, all(any(norm(a) == "self.rev_id" for c in g.nodes[m].calls() if call_attr(c) == "set_uploaded_revid" for a in c.args) for m in incr_mark), "the marker is the revision that was uploaded (self.rev_id)")
    fr = need(where, calling(g, attr="finish_renames", recv="self"), "self.finish_renames()")
    fd = need(where, calling(g, attr="finish_deletions", recv="self"), "self.finish_deletions()")
    rn = need(where, calling(g, attr="rename_remote", recv="self"), "self.rename_remote(...)")
    ctx.check("U2-phase-order", where, not (set(rn) & g.reach(fr)), "no rename is started after finish_renames()")
    k1_before(ctx, "U2-phase-order", where, g, fr, fd, "deferred directory deletions are finished after the renames")
    later = [i for i in ops if any(call_attr(c) in ("upload_file", "upload_symlink", "make_remote_dir") for c in g.nodes[i].calls()) and g.nodes[i].lineno > g.nodes[fr[0]].lineno]
    k1_before(ctx, "U2-phase-order", where, g, fd, later, "kind changes, additions and modifications are uploaded after renames and deletions were finished (a new file can take the name of a renamed or removed one)")
    # the loops themselves come in the order removed < renamed < [finish] < kind_changed < added < modified
    hdr = {}
    for n in g.nodes:
        if n.kind == "for" and norm(n.ast.iter).startswith("changes."):
            for part in norm(n.ast.iter).replace(" ", "").split("+"):
                hdr.setdefault(part.split(".", 1)[1], []).append(n.id)
    for cat in ("kind_changed", "added", "modified"):
        if hdr.get(cat):
            k1_before(ctx, "U2-phase-order", where, g, fd, hdr[cat], f"the {cat} entries are handled only after renames and deferred deletions were finished (a path can be re-used only once its previous occupant has been moved away or deleted)")
    for a_, b_ in (("removed", "renamed"), ("kind_changed", "added"), ("added", "modified")):
        if hdr.get(a_) and hdr.get(b_):
            ctx.check("U2-phase-order", where, not (set(hdr[a_]) & g.reach(hdr[b_])), f"the {a_} loop is not entered after the {b_} loop")
    k1_before(ctx, "U2-phase-order", where, g, hdr.get("renamed", []), fr, "finish_renames() follows the renamed loop") if hdr.get("renamed") else None
    f3 = repo.func(UP, f"{U}.delete_remote_dir_maybe")
    w3 = f"{UP}:{U}.delete_remote_dir_maybe"
    trs = [t for t in walk_own(f3) if isinstance(t, ast.Try)]
    ok = len(trs) == 1 and any(call_attr(c) == "_up_rmdir" for s_ in trs[0].body for c in calls_in(s_)) and all(any(call_attr(c) == "append" and call_recv(c) == "self._pending_deletions" for s_ in h.body for c in calls_in(s_)) for h in trs[0].handlers) and not any(call_attr(c) == "append" and call_recv(c) == "self._pending_deletions" for s_ in f3.body if not isinstance(s_, ast.Try) for c in calls_in(s_))
    ctx.check("U3-deferred-dir-deletion", w3, ok, "a removed directory is deleted at once when it is already empty and deferred only when the rmdir fails", message="delete_remote_dir_maybe no longer tries the rmdir first: an already empty removed directory keeps its name until finish_deletions(), after the renames — a directory renamed onto that name is then deleted (or a file rename onto it fails)")
    dm = calling(g, attr="delete_remote_dir_maybe", recv="self")
    ctx.check("U2-phase-order", where, bool(dm) and not (set(dm) & g.reach(fd)), "directories of removed entries are only scheduled (delete_remote_dir_maybe) before finish_deletions()")
    # ---- U3 -----------------------------------------------------------------------------------
    f1 = repo.func(UP, f"{U}.rename_remote")
    w1 = f"{UP}:{U}.rename_remote"
    ren = [c for c in calls_in(f1) if call_attr(c) == "_up_rename"]
    app = [c for c in calls_in(f1) if call_attr(c) == "append" and call_recv(c) == "self._pending_renames"]
    ok = len(ren) == 1 and len(app) == 1 and norm(ren[0].args[0]) == "old_relpath" and isinstance(ren[0].args[1], ast.Name) and isinstance(app[0].args[0], ast.Tuple) and [norm(e) for e in app[0].args[0].elts] == [ren[0].args[1].id, "new_relpath"]
    ctx.check("U3-two-stage-rename", w1, ok, "rename_remote moves old -> temporary name and records (temporary name, new path)", construct=f"{[norm(c) for c in ren]} / {[norm(c) for c in app]}", message="rename_remote no longer goes through a recorded temporary name: renaming a -> b and b -> a in one upload overwrites one of the files")
    tmpn = [s for s in walk_own(f1) if isinstance(s, ast.Assign) and ren and isinstance(ren[0].args[1], ast.Name) and norm(s.targets[0]) == ren[0].args[1].id]
    ctx.check("U3-two-stage-rename", w1, len(tmpn) == 1 and all(x in norm(tmpn[0].value) for x in ("time.time()", "os.getpid()", "random.randint")), "the temporary name is unique per call (time, pid, random)")
    f2 = repo.func(UP, f"{U}.finish_renames")
    w2 = f"{UP}:{U}.finish_renames"
    lp = [n for n in walk_own(f2) if isinstance(n, ast.For) and norm(n.iter) == "self._pending_renames" and isinstance(n.target, ast.Tuple) and len(n.target.elts) == 2]
    ok = len(lp) == 1 and any(call_attr(c) == "_up_rename" and [norm(a) for a in c.args] == [norm(e) for e in lp[0].target.elts] for c in calls_in(lp[0]))
    ctx.check("U3-two-stage-rename", w2, ok, "finish_renames moves every recorded temporary name to its final path")
    ctx.check("U3-two-stage-rename", w2, any(isinstance(s, ast.Assign) and norm(s.targets[0]) == "self._pending_renames" and norm(s.value) == "[]" for s in walk_own(f2)), "the pending list is cleared afterwards")
    ctx.sample({"categories": cats})

    # ---- U5: no change of a walked category is skipped except through the ignore test -----------------------------
    for l in loops:
        cat = norm(l.iter)
        for n in ast.walk(l):
            if isinstance(n, (ast.Continue, ast.Break)):
                owner = [i for i in ast.walk(l) if isinstance(i, ast.If) and any(x is n for x in ast.walk(i))]
                ok = any(any(call_attr(c) == "is_ignored" for c in calls_in(i.test)) for i in owner)
                ctx.check("U5-no-change-skipped", f"{where}[{cat}]", ok, f"a change of {cat} leaves its iteration early only through the is_ignored test", construct=f"L{n.lineno}:{type(n).__name__.lower()} under {[norm(i.test)[:50] for i in owner][-1:]}", message=f"upload_tree skips a change of {cat} for a reason other than the ignore list ({[norm(i.test)[:60] for i in owner][-1:]}): that path is neither deleted, renamed nor uploaded, the remote directory keeps (or lacks) it and the marker still advances")
    gx = g.without_exc_edges()
    EFFECT = ("upload_", "delete_remote", "rename_remote", "make_remote")
    eff = {n.id for n in gx.nodes if any((call_attr(c) or "").startswith(EFFECT) and call_recv(c) == "self" for c in n.calls())}
    kind_tests = [n.id for n in gx.nodes if n.kind == "test" and any(isinstance(c, ast.Compare) and ".kind[" in norm(c.left) and isinstance(c.ops[0], (ast.Eq, ast.In)) for c in ast.walk(n.ast))]
    ctx.require(len(kind_tests) >= 8, f"{where}: only {len(kind_tests)} kind tests found")
    heads = {n.id for n in gx.nodes if n.kind in ("for-iter", "loop", "for")} | {n.id for n in gx.nodes if n.ast is not None and isinstance(n.ast, ast.For)}
    n_arm = 0
    for t in kind_tests:
        starts = [b for (b, l_) in gx.succ[t] if l_ == "T" and b not in eff]
        if not starts:
            n_arm += 1
            continue
        r_ = gx.reach(starts, avoid=eff, include_src=True)
        # leaving the arm without an effect = reaching another kind test of a *later* statement, a loop head or the exit
        out = sorted(i for i in r_ if i == gx.exit or i in heads or (i in kind_tests and i != t))
        n_arm += 1
        ctx.check("U5-no-change-skipped", f"{where}[{norm(gx.nodes[t].ast)[:40]}]", not out, f"every normal way through the arm `{norm(gx.nodes[t].ast)[:40]}` performs its remote operation", construct=gx.nodes[t].text()[:60], message=f"upload_tree can pass through the arm `{norm(gx.nodes[t].ast)[:50]}` without deleting, renaming or uploading anything: the change is silently left out and the marker still advances", witness=gx.show_path(gx.path(starts, out, avoid=eff)) if out else None)
    # ---- U6: a full upload (which never deletes) happens only on request -------------------------------------------
    fr = repo.func(UP, "cmd_upload.run")
    wr_ = f"{UP}:cmd_upload.run"
    reass = [f"L{s_.lineno}:{norm(s_)[:40]}" for s_ in walk_own(fr) if isinstance(s_, (ast.Assign, ast.AugAssign)) and any(norm(t_) == "full" for t_ in (s_.targets if isinstance(s_, ast.Assign) else [s_.target]))]
    fcalls = [c for c in calls_in(fr) if call_attr(c) == "upload_full_tree"]
    guarded = [i for i in ast.walk(fr) if isinstance(i, ast.If) and norm(i.test) == "full" and any(call_attr(c) == "upload_full_tree" for s_ in i.body for c in calls_in(s_))]
    ctx.check("U6-full-upload-only-on-request", wr_, "full" in [a.arg for a in fr.args.args] and not reass and len(fcalls) == 1 and len(guarded) == 1, "upload_full_tree() runs only under the user's `full` option, which run() never reassigns", construct="; ".join(reass) or str([norm(c) for c in fcalls]), message=f"cmd_upload.run switches to a full upload by itself ({reass}): a full upload deletes nothing, so paths that exist only in the previously uploaded revision stay on the remote while the marker advances — later incremental uploads never remove them")

    # ---- U7: the ignore decision is taken on whole path components -------------------------------------------------
    fi = repo.func(UP, f"{U}.is_ignored")
    wi = f"{UP}:{U}.is_ignored"
    loose = []
    for c in calls_in(fi):
        if call_attr(c) in ("startswith", "endswith", "find", "index", "count") and c.args:
            a0 = c.args[0]
            sep_aware = (isinstance(a0, ast.Constant) and isinstance(a0.value, str) and a0.value.endswith("/")) or (isinstance(a0, ast.BinOp) and isinstance(a0.op, ast.Add) and isinstance(a0.right, ast.Constant) and a0.right.value == "/") or (isinstance(a0, ast.JoinedStr) and a0.values and isinstance(a0.values[-1], ast.Constant) and str(a0.values[-1].value).endswith("/"))
            if not sep_aware:
                loose.append(f"L{c.lineno}:{norm(c)[:60]}")
    for n in walk_own(fi):
        if isinstance(n, ast.Compare) and any(isinstance(o, (ast.In, ast.NotIn)) for o in n.ops) and isinstance(n.left, ast.Name) and all(isinstance(cm, ast.Name) for cm in n.comparators) and any(cm.id in ("relpath", "path", "dir") for cm in n.comparators):
            loose.append(f"L{n.lineno}:{norm(n)[:60]}")
    ctx.check("U7-ignore-on-whole-components", wi, any(call_attr(c) == "match" for c in calls_in(fi)) and any(call_attr(c) == "dirname" for c in calls_in(fi)) and not loose, "is_ignored matches the path and its dirname() ancestors against the patterns; no string-prefix test without a path separator", construct="; ".join(loose), message=f"is_ignored decides with a plain string prefix/substring test ({'; '.join(loose)}): a path that merely shares a name prefix with an ignored directory (cache-control/x beside an ignored cache) counts as ignored and is silently not uploaded, refreshed or deleted while the marker advances")
    # ---- U8: the tree that is uploaded is the tree of the revision the marker will name ----------------------------------
    n_ctor = 0
    for rel_ in (UP, "breezy/plugins/upload/__init__.py"):
        for q_, f_ in repo.module(rel_).functions().items():
            for c in calls_in(f_):
                if norm(c.func).split(".")[-1] != U or len(c.args) < 5:
                    continue
                n_ctor += 1
                tree_a, rev_a = c.args[3], c.args[4]
                srcs = [a.value for a in ast.walk(f_) if isinstance(a, ast.Assign) and isinstance(tree_a, ast.Name) and any(isinstance(t, ast.Name) and t.id == tree_a.id for t in a.targets)] or [tree_a]
                ok8 = all(isinstance(v_, ast.Call) and call_attr(v_) == "revision_tree" and len(v_.args) == 1 and norm(v_.args[0]) == norm(rev_a) for v_ in srcs)
                ctx.check("U8-tree-of-the-marker-revision", f"{rel_}:{q_}", ok8, f"the tree handed to {U} is revision_tree({norm(rev_a)}), the revision it will record as uploaded", construct="; ".join(norm(v_)[:60] for v_ in srcs), message=f"{q_} hands {U} a tree that is not always `revision_tree({norm(rev_a)})` ({'; '.join(norm(v_)[:50] for v_ in srcs)}): when the two differ (a working tree behind its branch tip) the remote receives one revision's files while the marker records another — later incremental uploads start from the wrong state and never repair it")
    ctx.require(n_ctor >= 2, f"{U}(…) constructions found: {n_ctor} (expected cmd_upload.run and the auto-upload hook)")
    # ---- U9: what the remote holds is learned from the remote (or from our own write), nothing else plants it ------------
    planted = []
    for rel_ in repo.python_files(sub="breezy/plugins/upload"):
        for q_, f_ in repo.module(rel_).functions().items():
            if q_.startswith(U + "."):
                continue
            for a in ast.walk(f_):
                if isinstance(a, (ast.Assign, ast.AugAssign)) and any(isinstance(t, ast.Attribute) and t.attr == "_uploaded_revid" for t in (a.targets if isinstance(a, ast.Assign) else [a.target])):
                    planted.append(f"{rel_}:{q_}: {norm(a)[:60]}")
    ctx.check("U9-uploaded-revid-only-from-remote", f"{UP}:{U}", not planted, f"only {U}'s own methods (get_uploaded_revid reading the marker, set_uploaded_revid after writing it) assign _uploaded_revid", construct="; ".join(planted), message=f"`{planted[0] if planted else ''}` plants the cached uploaded revision from outside {U}: the delta is computed from a remembered revision instead of the marker the remote holds — after the remote was changed by another upload the incremental upload leaves files missing while the marker says it is current")


MUTANTS = [
    Mutant("auto upload hook uploads the basis tree of the working tree", "breezy/plugins/upload/__init__.py", "        source_branch, to_transport, sys.stdout, last_tree, last_revision, quiet=quiet\n", "        source_branch, to_transport, sys.stdout, source_branch.basis_tree(), last_revision, quiet=quiet\n", expect="U8-tree-of-the-marker-revision"),
    Mutant("ignored-directory shortcut by string prefix", UP, "        glob = self._get_ignored()\n        ignored = glob.match(relpath)\n", "        glob = self._get_ignored()\n        if any(relpath.startswith(d_) for d_ in getattr(self, '_seen_ignored', ())):\n            return True\n        ignored = glob.match(relpath)\n", expect="U7-ignore-on-whole-components"),
    Mutant("removed file kept when a file is added at the same path", UP, "                if change.kind[0] == \"file\":\n                    self.delete_remote_file(change.path[0])\n                elif change.kind[0] == \"directory\":\n                    self.delete_remote_dir_maybe(change.path[0])\n", "                if change.kind[0] == \"file\":\n                    if change.path[0] in {c.path[1] for c in changes.added}:\n                        continue\n                    self.delete_remote_file(change.path[0])\n                elif change.kind[0] == \"directory\":\n                    self.delete_remote_dir_maybe(change.path[0])\n", expect="U5-no-change-skipped"),
    Mutant("diverged overwrite silently becomes a full upload", UP, "            if full:\n                uploader.upload_full_tree()\n", "            if overwrite:\n                full = True\n            if full:\n                uploader.upload_full_tree()\n", expect="U6-full-upload-only-on-request"),
    Mutant("empty removed directories always deferred", UP, "        try:\n            self._up_rmdir(relpath)\n        # any kind of PathError would be OK, though we normally expect\n        # DirectoryNotEmpty\n        except transport_errors.PathError:\n            self._pending_deletions.append(relpath)\n", "        self._pending_deletions.append(relpath)\n", expect="U3-deferred-dir-deletion"),
    Mutant("kind changes no longer uploaded", UP, "            for change in changes.kind_changed:", "            for change in []:", expect="U1-categories-exhaustive"),
    Mutant("added symlinks skipped silently", UP, "                elif change.kind[1] == \"directory\":\n                    self.make_remote_dir(change.path[1])\n                elif change.kind[1] == \"symlink\":", "                elif change.kind[1] == \"directory\":\n                    self.make_remote_dir(change.path[1])\n                elif change.kind[1] == \"tree-reference\":", expect="U1-kinds-dispatched"),
    Mutant("marker written before the modifications", UP, "            for change in changes.modified:", "            self.set_uploaded_revid(self.rev_id)\n            for change in changes.modified:", expect="U2-marker-last"),
    Mutant("renames finished after the additions", UP, "            self.finish_renames()\n            self.finish_deletions()\n", "            self.finish_deletions()\n", expect=["U2-phase-order", "ANALYSIS-ERROR"]),
    Mutant("direct rename to the final name", UP, "        self._up_rename(old_relpath, stamp)\n        self._pending_renames.append((stamp, new_relpath))", "        self._up_rename(old_relpath, new_relpath)", expect="U3-two-stage-rename"),
    Mutant("neutral: loop variable renamed", UP, "            for change in changes.modified:\n                if self.is_ignored(change.path[1]):", "            for change in changes.modified:\n                if self.is_ignored(change.path[1]) is True:", neutral=True),
]
