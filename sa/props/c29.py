"""C29 — smart protocol messages survive the wire: encoder/decoder tables and state-machine idioms."""

import ast
import re

from ..astutil import call_attr, call_name, call_recv, calls_in, const_value, norm, walk_own
from ..cfg import assigns_to, build_cfg
from ..rules import calling, need
from ..selftest import Mutant

ID = "C29"
TECHNIQUE = "encoder/decoder literal-table agreement (K6), sibling state-machine idiom 'state advanced before the handler runs' (K7/K1), unused-data preservation ordering (K1), streaming-reader call whitelist (K4) (ast)"
FLOOR = 24
PF = "breezy/bzr/smart/protocol.py"
MS = "breezy/bzr/smart/message.py"
MD = "breezy/bzr/smart/medium.py"
EXPLANATION = """
R1 (K6) v3: the message-part kind bytes written by the _ProtocolThreeEncoder._write_* methods that have a call site equal
   the kinds dispatched by ProtocolThreeDecoder._state_accept_expecting_message_part (which raises on anything else); the
   status bytes written after b"o" equal the bytes accepted by the response and request handlers' byte_part_received;
   struct.pack and struct.unpack use the same format and the decoder's length-prefix width equals its calcsize; the
   protocol-version marker written is the one the decoder expects.
R2 (K6) v1/v2 bodies: the length-prefixed writer (b"%d\\n" + body + b"done\\n") matches LengthPrefixedBodyDecoder's
   trailer literal; the chunked writer's literals (chunked\\n, %x\\n, END\\n, ERR\\n) match ChunkedBodyDecoder's.
R3 (K7/K1) every ProtocolThreeDecoder state method that calls self.message_handler.* has already advanced
   self.state_accept (so a handler error leaves the decoder positioned after the part it consumed and the following
   message is still decoded), and wraps handler errors in SmartMessageHandlerError; done() stores the remaining buffer in
   unused_data before clearing it and before notifying the handler; _state_accept_reading_unused appends to unused_data.
R4 (K1) the serve loops push protocol.unused_data back into the medium after the request.
R5 (K4) ConventionalResponseHandler.read_streamed_body advances the decoder only through single _read_more() steps between
   drains of _bytes_parts (no multi-step reader such as _wait_for_response_end inside the generator), and yields every
   drained part.
R8 (typestate of the stream element) in both body-stream encoders (_send_chunks for v1/v2, ProtocolThreeResponder.send_response
   for v3) the loop element may be an in-band FailedSmartServerResponse; no use of it as bytes (len(), writer argument,
   concatenation) is reachable from the loop header except through the false edge of the isinstance(.., Failed..) test or the
   true edge of isinstance(.., bytes): an error raised mid-stream reaches the client as error status + structure + end.
R9 osutils.send_all (the one writer of every socket medium): the loop cursor advances by the variable assigned from sock.send()
   and each send is offered the slice starting at the cursor. R10 RemoteTransport._handle_response: every `next(offset_stack)` also
   stores into next_offset[0], the cursor shared with _readv across the responses of one readv.
R11 SmartServerRequestProtocolOne.accept_bytes (shared by v2): every `self._send_response(..)` has an assignment of self.unused_data on
   every path before it, or on every normal path after it (today: KNOWN FINDING for the two error replies).
R12 the error status of a client body stream has an effect: SmartServerRequestHandler.post_body_error_received is not an empty
   body, or _error_received records a mark that end_received reads (today: KNOWN FINDING, "Just a no-op at the moment").
Does not decide: independence from read segmentation for all chunkings (dynamic behaviour of the state machines).
"""


def run(ctx):
    repo = ctx.repo
    mod = repo.module(PF)
    enc = repo.cls(PF, "_ProtocolThreeEncoder")
    # ---- R1 -----------------------------------------------------------------
    called = {call_attr(c) for q, f in mod.functions().items() for c in calls_in(f) if (call_attr(c) or "").startswith("_write_")}
    kinds, statuses, writers = set(), set(), {}
    for item in enc.body:
        if isinstance(item, ast.FunctionDef) and item.name.startswith("_write_"):
            for c in calls_in(item):
                if call_attr(c) == "_write_func" and c.args and isinstance(c.args[0], ast.Constant) and isinstance(c.args[0].value, bytes) and 1 <= len(c.args[0].value) <= 2:
                    v = c.args[0].value
                    writers[item.name] = v
                    if item.name in called:
                        kinds.add(v[:1])
                        if len(v) == 2:
                            statuses.add(v[1:])
                    else:
                        ctx.info("R1", f"{PF}:_ProtocolThreeEncoder.{item.name}", f"writes {v!r} but has no call site (dead code, ignored)")
    dec = repo.func(PF, "ProtocolThreeDecoder._state_accept_expecting_message_part")
    dk = {n.comparators[0].value for n in walk_own(dec) if isinstance(n, ast.Compare) and isinstance(n.comparators[0], ast.Constant) and isinstance(n.comparators[0].value, bytes)}
    ctx.check("R1-part-kinds", f"{PF}:_ProtocolThreeEncoder/ProtocolThreeDecoder", kinds == dk and len(kinds) >= 4, f"kinds written {sorted(kinds)} == kinds dispatched {sorted(dk)}", construct=f"{sorted(kinds)} / {sorted(dk)}", message=f"v3 message-part kinds disagree: encoder writes {sorted(kinds)}, decoder dispatches {sorted(dk)}")
    ctx.check("R1-part-kinds", f"{PF}:ProtocolThreeDecoder._state_accept_expecting_message_part", any(isinstance(n, ast.Raise) for n in walk_own(dec)), "an unknown kind byte is a protocol error")
    for cname in ("ConventionalResponseHandler", "ConventionalRequestHandler"):
        f = repo.func(MS, f"{cname}.byte_part_received")
        acc = set()
        for n in walk_own(f):
            if isinstance(n, ast.Compare):
                for c in n.comparators:
                    if isinstance(c, ast.Constant) and isinstance(c.value, bytes):
                        acc.add(c.value)
                    if isinstance(c, (ast.List, ast.Tuple)):
                        acc |= {e.value for e in c.elts if isinstance(e, ast.Constant) and isinstance(e.value, bytes)}
        ctx.check("R1-status-bytes", f"{MS}:{cname}.byte_part_received", statuses == acc, f"status bytes written {sorted(statuses)} == accepted {sorted(acc)}", construct=f"{sorted(statuses)} / {sorted(acc)}", message=f"status bytes disagree: encoder writes {sorted(statuses)}, {cname} accepts {sorted(acc)}")
    packs = {const_value(c.args[0]) for q, f in mod.functions().items() for c in calls_in(f) if call_name(c) == "struct.pack" and c.args}
    unpacks = {const_value(c.args[0]) for q, f in mod.functions().items() for c in calls_in(f) if call_name(c) == "struct.unpack" and c.args}
    ctx.check("R1-length-prefix", PF, packs == unpacks and len(packs) == 1, f"struct formats: pack {sorted(packs)} / unpack {sorted(unpacks)}", construct=f"{packs} / {unpacks}", message="length prefixes are packed and unpacked with different struct formats")
    fx = repo.func(PF, "ProtocolThreeDecoder._extract_length_prefixed_bytes")
    import struct

    width = struct.calcsize(next(iter(packs))) if len(packs) == 1 else None
    ints = {n.value for n in walk_own(fx) if isinstance(n, ast.Constant) and isinstance(n.value, int) and not isinstance(n.value, bool)}
    ctx.check("R1-length-prefix", f"{PF}:ProtocolThreeDecoder._extract_length_prefixed_bytes", width is not None and ints == {width}, f"the decoder's prefix width {sorted(ints)} equals calcsize({sorted(packs)}) = {width}", construct=str(sorted(ints)))
    wv = repo.func(PF, "_ProtocolThreeEncoder._write_protocol_version")
    dv = repo.func(PF, "ProtocolThreeDecoder._state_accept_expecting_protocol_version")
    ctx.check("R1-version-marker", PF, "MESSAGE_VERSION_THREE" in norm(wv) and "MESSAGE_VERSION_THREE" in norm(dv), "encoder and decoder use the same version marker constant")

    # ---- R2 -----------------------------------------------------------------
    def lits(node):
        return {n.value for n in ast.walk(node) if isinstance(n, ast.Constant) and isinstance(n.value, bytes)}

    enc_body = mod.get("_encode_bulk_data") or mod.get("SmartClientRequestProtocolOne._write_bulk_data")
    all_l = lits(mod.tree)
    lp = repo.cls(PF, "LengthPrefixedBodyDecoder")
    ck = repo.cls(PF, "ChunkedBodyDecoder")
    bulk = [f for q, f in mod.functions().items() if b"done\n" in lits(f) and "BodyDecoder" not in q]
    ctx.check("R2-length-prefixed", PF, bool(bulk) and b"done\n" in lits(lp) and any(b"%d\n" in lits(f) for f in bulk), "length-prefixed body: writer %d\\n ... done\\n, decoder expects done\\n", message="the length-prefixed body trailer differs between writer and LengthPrefixedBodyDecoder")
    sw = [f for q, f in mod.functions().items() if q in ("_send_stream", "_send_chunks")]
    wl = set().union(*[lits(f) for f in sw]) if sw else set()
    dl = lits(ck)
    ok = bool(sw) and {b"chunked\n", b"END\n"} <= wl and (b"chunked\n" in dl or "chunked\n" in {n.value for n in ast.walk(ck) if isinstance(n, ast.Constant)}) and b"END" in dl and (b"ERR\n" in wl) == (b"ERR" in dl)
    ctx.check("R2-chunked", PF, ok, "chunked body: writer chunked\\n / %x\\n / END\\n / ERR\\n, decoder header 'chunked\\n', terminators END / ERR", construct=f"writer {sorted(wl)[:8]} / decoder {sorted(dl)[:8]}", message="the chunked body literals differ between the stream writer and ChunkedBodyDecoder")
    hexw = any(b"%x\n" in lits(f) for f in sw) or any(isinstance(n, ast.FormattedValue) and n.format_spec is not None and "x" in norm(n.format_spec) for f in sw for n in ast.walk(f))
    hexr = any(isinstance(c, ast.Call) and norm(c.func) == "int" and len(c.args) == 2 and const_value(c.args[1]) == 16 for c in ast.walk(ck))
    ctx.check("R2-chunked", f"{PF}:ChunkedBodyDecoder", hexw and hexr, "chunk lengths are written and read in hexadecimal")

    # ---- R3 -----------------------------------------------------------------
    deccls = repo.cls(PF, "ProtocolThreeDecoder")
    n_states = 0
    for item in deccls.body:
        if not isinstance(item, ast.FunctionDef):
            continue
        hcalls = [c for c in calls_in(item) if call_recv(c) == "self.message_handler"]
        if not hcalls or item.name in ("__init__",):
            continue
        if call_attr(hcalls[0]) in ("protocol_error",):
            continue
        n_states += 1
        g = build_cfg(item)
        where = f"{PF}:ProtocolThreeDecoder.{item.name}"
        hn = calling(g, recv="self.message_handler")
        st = g.find(assigns_to("self.state_accept"))
        ok, w = g.always_before(st, hn) if st else (False, None)
        ctx.check("R3-state-before-handler", where, ok, "self.state_accept is advanced before the message handler is called", message="the handler is called before the decoder state was advanced: if the handler raises, the decoder re-reads from the wrong state and swallows the following message", witness=g.show_path(w) if w else None)
        wrapped = all(any(b == h.id for (b, l) in g.succ[n] if l == "X") for n in hn for h in [x for x in g.nodes if x.kind == "handler"]) and any("SmartMessageHandlerError" in norm(x) for x in walk_own(item) if isinstance(x, ast.Raise))
        ctx.check("R3-handler-errors-wrapped", where, wrapped, "handler exceptions are wrapped in SmartMessageHandlerError")
    ctx.require(n_states >= 5, f"only {n_states} handler-calling state methods found (hand-confirmed: 5 + done)")
    for cname, meth in (("ProtocolThreeDecoder", "done"), ("LengthPrefixedBodyDecoder", "_state_accept_reading_trailer"), ("ChunkedBodyDecoder", "_finished")):
        if not repo.has(PF, f"{cname}.{meth}"):
            continue
        f = repo.func(PF, f"{cname}.{meth}")
        g = build_cfg(f)
        where = f"{PF}:{cname}.{meth}"
        ud = g.find(assigns_to("self.unused_data"))
        clr = calling(g, attr="_set_in_buffer", argpred=lambda c: c.args and norm(c.args[0]) == "None")
        if ud and clr and meth == "done":
            ok, w = g.always_before(ud, clr)
            ctx.check("R3-unused-data-kept", where, ok, "the bytes after the end of the message are stored in unused_data before the buffer is cleared", witness=g.show_path(w) if w else None)
        elif ud:
            ctx.check("R3-unused-data-kept", where, True, "bytes after the end of the message are stored in unused_data")
    fru = repo.func(PF, "ProtocolThreeDecoder._state_accept_reading_unused")
    ctx.check("R3-unused-data-kept", f"{PF}:ProtocolThreeDecoder._state_accept_reading_unused", any(isinstance(s, ast.AugAssign) and norm(s.target) == "self.unused_data" and isinstance(s.op, ast.Add) for s in walk_own(fru)), "further bytes after the end are appended to unused_data, not dropped")

    # ---- R4 -----------------------------------------------------------------
    n_push = 0
    for q, f in repo.module(MD).functions().items():
        if q.endswith("._serve_one_request_unguarded"):
            cs = [c for c in calls_in(f) if call_attr(c) == "_push_back" and c.args and norm(c.args[0]) == "protocol.unused_data"]
            if any(call_attr(c) == "accept_bytes" for c in calls_in(f)):
                n_push += 1
                # the pipe medium reads exactly next_read_size(), so it never has excess; the socket medium must push back
                if "Socket" in q:
                    ctx.check("R4-excess-pushed-back", f"{MD}:{q}", bool(cs), "bytes read beyond the request are pushed back for the next request", message="the socket serve loop drops protocol.unused_data: the beginning of the next request is lost")
    ctx.require(n_push >= 2, "serve loops not found")

    # ---- R5 -----------------------------------------------------------------
    f = repo.func(MS, "ConventionalResponseHandler.read_streamed_body")
    where = f"{MS}:ConventionalResponseHandler.read_streamed_body"
    allowed = {"_read_more", "popleft", "mutter", "debug_flag_enabled", "len", "_raise_smart_server_error"}
    other = sorted({(call_attr(c) or norm(c.func)) for c in calls_in(f)} - allowed)
    ctx.check("R5-stream-single-step", where, not other and any(call_attr(c) == "_read_more" for c in calls_in(f)), "the streaming reader advances only by single _read_more() steps between drains", construct=str(other), message=f"read_streamed_body calls {other}: reading more than one step without draining _bytes_parts drops chunks that arrive together with the end of the stream")
    ys = [n for n in walk_own(f) if isinstance(n, ast.Yield)]
    pops = [s for s in walk_own(f) if isinstance(s, ast.Assign) and isinstance(s.value, ast.Call) and call_attr(s.value) == "popleft"]
    ctx.check("R5-stream-single-step", where, len(ys) == 1 and len(pops) == 1 and norm(ys[0].value) == norm(pops[0].targets[0]), "every part popped from _bytes_parts is yielded")

    # ---- R6: the v3 encoder has one way to the medium, in order -------------------------------------------------------
    enc_cls = "_ProtocolThreeEncoder"
    callers = sorted(q for q, f in repo.module(PF).functions().items() if q.startswith(enc_cls + ".") and any(norm(c.func) == "self._real_write_func" for c in calls_in(f)))
    ctx.check("R6-encoder-single-writer", f"{PF}:{enc_cls}", callers == [f"{enc_cls}.flush"], "only flush() hands bytes to the real write function (everything goes through the buffer, so the wire order is the write order)", construct=str(callers), message=f"the real write function is also called from {[c for c in callers if not c.endswith('.flush')]}: bytes written directly overtake what is still buffered (marker, headers, length prefix), the peer sees a body before its header")
    ff = repo.func(PF, f"{enc_cls}.flush")
    ctx.check("R6-encoder-single-writer", f"{PF}:{enc_cls}.flush", any(norm(c) == "self._real_write_func(b''.join(self._buf))" for c in calls_in(ff)) and (any(isinstance(s_, ast.Assign) and norm(s_.targets[0]) == "self._buf" and norm(s_.value) == "[]" for s_ in walk_own(ff)) or any(isinstance(s_, ast.Delete) and norm(s_) == "del self._buf[:]" for s_ in walk_own(ff)) or any(norm(c) == "self._buf.clear()" for c in calls_in(ff))), "flush writes the whole buffer in order and empties it")
    # ---- R7: after a message-handler error the v3 decoder restarts through its own guarded accept_bytes ----------------
    fa3 = repo.func(PF, "ProtocolThreeDecoder.accept_bytes")
    hs = [h for h in ast.walk(fa3) if isinstance(h, ast.ExceptHandler) and h.type is not None and "SmartMessageHandlerError" in norm(h.type)]
    ok = len(hs) == 1 and any(norm(c) == "self.accept_bytes(b'')" for c in calls_in(ast.Module(body=hs[0].body, type_ignores=[]))) and any(call_attr(c) == "protocol_error" for c in calls_in(ast.Module(body=hs[0].body, type_ignores=[])))
    ctx.check("R7-restart-through-guard", f"{PF}:ProtocolThreeDecoder.accept_bytes", ok, "after a handler error the decoder reports it and re-enters self.accept_bytes(b'') — the guarded method, so a second handler error in the same buffer is handled the same way", message="the restart after a message-handler error no longer goes through self.accept_bytes: a second handler error raised while draining the same buffer (unknown verb: once at the args, once at the end marker) escapes, the connection is dropped and the next request is lost")

    # ---- R8: an in-band error chunk of a body stream is recognised before the chunk is treated as bytes -----------------
    n_enc = 0
    for q in ("_send_chunks", "ProtocolThreeResponder.send_response"):
        fe = repo.func(PF, q)
        g = build_cfg(fe)

        def _inst(n, cls_tail):
            e = n.ast
            return isinstance(e, ast.Call) and call_name(e) == "isinstance" and len(e.args) == 2 and isinstance(e.args[0], ast.Name) and norm(e.args[1]).split(".")[-1] == cls_tail

        failed = [n for n in g.nodes if n.kind == "test" and _inst(n, "FailedSmartServerResponse")]
        ctx.require(len(failed) == 1, f"{q}: expected one isinstance(<chunk>, FailedSmartServerResponse) test in the stream loop, found {len(failed)}")
        var = failed[0].ast.args[0].id
        loops = [h for h in g.loops_of(failed[0].id) if g.nodes[h].kind == "for"]
        ctx.require(bool(loops), f"{q}: the error-chunk test is not inside the stream loop")
        header = loops[-1]
        ctx.require(var in {n_.id for n_ in ast.walk(g.nodes[header].ast.target) if isinstance(n_, ast.Name)}, f"{q}: {var} is not the stream loop's element")
        cut = {(n.id, b, l) for n in failed for (b, l) in g.succ[n.id] if l == "F"}
        cut |= {(n.id, b, l) for n in g.nodes if n.kind == "test" and _inst(n, "bytes") and n.ast.args[0].id == var for (b, l) in g.succ[n.id] if l == "T"}

        def _as_bytes(n):
            if n.kind == "for" or n.ast is None:
                return False
            root = n.expr() if n.kind != "test" else n.ast
            if root is None:
                return False
            for e in ast.walk(root):
                if isinstance(e, ast.Call) and call_name(e) not in ("isinstance", "repr") and call_attr(e) not in ("_trace", "mutter") and any(isinstance(a, ast.Name) and a.id == var for a in e.args):
                    return True
                if isinstance(e, ast.BinOp) and any(isinstance(a, ast.Name) and a.id == var for a in (e.left, e.right)):
                    return True
            return False

        users = set(g.find(_as_bytes))
        ctx.require(bool(users), f"{q}: no use of the stream element {var} as bytes found")
        unsafe = sorted(g.copy_without(cut).reach([header]) & users)
        n_enc += 1
        ctx.check("R8-error-chunk-recognised-first", f"{PF}:{q}", not unsafe, f"every use of the stream element `{var}` as bytes (len, writer argument, concatenation) lies behind the test that it is not a FailedSmartServerResponse", construct=g.nodes[unsafe[0]].text() if unsafe else "", message=f"`{g.nodes[unsafe[0]].text() if unsafe else ''}` handles `{var}` as bytes on a path where it may still be an in-band FailedSmartServerResponse: the encoder fails (or writes garbage) instead of sending the error status, the structure and the end marker, and the client waits for the rest of a response that never ends")
    ctx.require(n_enc == 2, "stream encoders not found")
    # ---- R11: a v1/v2 request decoder that answers keeps the bytes behind the request for the next one -------------------
    n_v1 = 0
    for cls_ in ("SmartServerRequestProtocolOne",):
        fa1 = repo.func(PF, f"{cls_}.accept_bytes")
        g1 = build_cfg(fa1)
        keeps = set(g1.find(assigns_to("self.unused_data")))
        ctx.require(bool(keeps), f"{PF}:{cls_}.accept_bytes: no assignment of self.unused_data found")
        handlers_ = [h for h in ast.walk(fa1) if isinstance(h, ast.ExceptHandler)]
        for sid in sorted(n.id for n in g1.nodes if n.kind == "stmt" and any(norm(c.func) == "self._send_response" for c in n.calls())):
            n_v1 += 1
            node_ = g1.nodes[sid]
            hs_ = [h for h in handlers_ if any(x is node_.ast for b_ in h.body for x in ast.walk(b_))]
            tag = f"except {norm(hs_[0].type)}" if hs_ and hs_[0].type is not None else "request"
            ok1 = g1.always_before(keeps, [sid])[0] or g1.always_after([sid], keeps, exits=[g1.exit])[0]
            ctx.check("R11-v1-reply-keeps-following-bytes", f"{PF}:{cls_}.accept_bytes[{tag}]", ok1, "the bytes behind the request are moved to unused_data on the way to or from the reply", construct=node_.text(), message=f"{cls_}.accept_bytes answers with `{node_.text()}` and returns while the bytes that followed the request line are still in self.in_buffer: the serve loop pushes back only unused_data and stops reading (next_read_size() is 0), so a following request that arrived in the same read is lost — fed byte by byte the same stream keeps it")
    ctx.require(n_v1 >= 4, f"{PF}: only {n_v1} reply sites found in the v1 request decoder (hand-confirmed: 4)")
    # ---- R12: an error status sent by the client in its body stream has an effect on the server side ---------------------
    RQ = "breezy/bzr/smart/request.py"
    fpe = repo.func(RQ, "SmartServerRequestHandler.post_body_error_received")
    eff = [s_ for s_ in fpe.body if not isinstance(s_, ast.Pass) and not (isinstance(s_, ast.Expr) and isinstance(s_.value, ast.Constant))]
    fer = repo.func(MS, "ConventionalRequestHandler._error_received")
    ctx.require(any(call_attr(c) == "post_body_error_received" for c in calls_in(fer)), f"{MS}:ConventionalRequestHandler._error_received no longer hands the error to the request handler (restructured?)")
    fend = repo.func(MS, "ConventionalRequestHandler.end_received")
    marks = {norm(t) for s_ in walk_own(fer) if isinstance(s_, ast.Assign) for t in s_.targets if norm(t).startswith("self.")} - {"self.expecting"}
    reads_mark = any(isinstance(n_, ast.Attribute) and norm(n_) in marks for n_ in ast.walk(fend))
    ctx.check("R12-client-stream-error-acted-on", f"{RQ}:SmartServerRequestHandler.post_body_error_received", bool(eff) or reads_mark, "an error status decoded from the client's body stream reaches the command (the request handler acts on it, or end_received() is told)", construct="body: pass", message="the error a client raised in its body stream is decoded (oE + structure) and then dropped: SmartServerRequestHandler.post_body_error_received is a no-op and ConventionalRequestHandler.end_received goes on to call the command's do_end(), so the command completes on the truncated stream and answers success — the encoded error is not decoded into an error on the other side")
    # ---- R9: send_all advances its cursor by what send() accepted --------------------------------------------------------
    OS_ = "breezy/osutils.py"
    fs = repo.func(OS_, "send_all")
    sends = [s_ for s_ in ast.walk(fs) if isinstance(s_, ast.Assign) and len(s_.targets) == 1 and isinstance(s_.targets[0], ast.Name) and isinstance(s_.value, ast.Call) and call_attr(s_.value) == "send"]
    loops_ = [w for w in ast.walk(fs) if isinstance(w, ast.While) and isinstance(w.test, ast.Compare) and len(w.test.ops) == 1 and isinstance(w.test.left, ast.Name) and isinstance(w.test.comparators[0], ast.Name)]
    ctx.require(len(sends) == 1 and len(loops_) == 1, f"{OS_}:send_all: expected one `<n> = sock.send(..)` inside one `while <cursor> < <total>` loop")
    nsent = sends[0].targets[0].id
    advs = [a for a in ast.walk(loops_[0]) if isinstance(a, ast.AugAssign) and isinstance(a.op, ast.Add) and isinstance(a.target, ast.Name) and a.target.id in (loops_[0].test.left.id, loops_[0].test.comparators[0].id)] + [a for a in ast.walk(loops_[0]) if isinstance(a, ast.Assign) and any(isinstance(t, ast.Name) and t.id in (loops_[0].test.left.id, loops_[0].test.comparators[0].id) for t in a.targets)]
    ctx.require(len(advs) == 1, f"{OS_}:send_all: expected exactly one cursor advance in the send loop, found {len(advs)}")
    cur = advs[0].target.id if isinstance(advs[0], ast.AugAssign) else norm(advs[0].targets[0])
    okadv = isinstance(advs[0], ast.AugAssign) and isinstance(advs[0].value, ast.Name) and advs[0].value.id == nsent
    if isinstance(advs[0], ast.Assign):
        okadv = norm(advs[0].value) in (f"{cur} + {nsent}", f"{nsent} + {cur}")
    ctx.check("R9-send-advances-by-accepted", f"{OS_}:send_all", okadv, f"the cursor `{cur}` advances by `{nsent}`, the count send() returned", construct=norm(advs[0]), message=f"send_all advances `{cur}` with `{norm(advs[0])}` instead of by the count `{nsent}` that sock.send() returned: after a short write (send accepts fewer bytes than offered, usual for large bodies on a busy socket) the unsent tail of the chunk is skipped and the peer decodes a message with bytes missing")
    offered = sends[0].value
    if offered.args and isinstance(offered.args[0], ast.Name):
        # the offered slice held in a local: follow its (single) assignment inside the loop
        src_ = [a for a in ast.walk(loops_[0]) if isinstance(a, ast.Assign) and any(isinstance(t, ast.Name) and t.id == offered.args[0].id for t in a.targets)]
        if len(src_) == 1:
            offered = src_[0].value
    sl = [e for e in ast.walk(offered) if isinstance(e, ast.Slice)]
    ctx.check("R9-send-advances-by-accepted", f"{OS_}:send_all", len(sl) == 1 and sl[0].lower is not None and norm(sl[0].lower) == cur, f"each send() is offered the data starting at the cursor `{cur}`", construct=norm(sends[0]), message=f"`{norm(sends[0])}` does not offer the bytes starting at the cursor `{cur}`: bytes are sent twice or skipped")
    # ---- R10: the readv cursor shared between responses is advanced wherever a range is handed out -----------------------
    RT = "breezy/transport/remote.py"
    fh = repo.func(RT, "RemoteTransport._handle_response")
    hp = [a.arg for a in fh.args.args]
    ctx.require(len(hp) == 6, f"{RT}:RemoteTransport._handle_response: parameter list changed ({hp})")
    stack_p, shared_p = hp[1], hp[5]
    fcall = repo.func(RT, "RemoteTransport._readv")
    passes = [c for c in calls_in(fcall) if call_attr(c) == "_handle_response"]
    ctx.require(len(passes) == 1 and len(passes[0].args) == 5, f"{RT}:RemoteTransport._readv: the call of _handle_response was not found")
    nexts = [s_ for s_ in ast.walk(fh) if isinstance(s_, ast.Assign) and isinstance(s_.value, ast.Call) and call_name(s_.value) == "next" and s_.value.args and norm(s_.value.args[0]) == stack_p]
    ctx.require(len(nexts) >= 2, f"{RT}:RemoteTransport._handle_response: expected the in-order and the cached path to take the next requested offset, found {len(nexts)} sites")
    for s_ in nexts:
        ctx.check("R10-readv-cursor-shared", f"{RT}:RemoteTransport._handle_response", any(norm(t) == f"{shared_p}[0]" for t in s_.targets), f"taking the next requested range also records it in {shared_p}[0], the cursor the next response starts from", construct=norm(s_), message=f"`{norm(s_)}` takes the next requested range from the iterator without recording it in `{shared_p}[0]`: the next response of the same readv starts from a range that was already skipped, never finds it and the ranges that follow are left in the cache — readv yields fewer ranges than were asked for")
    ctx.check("R10-readv-cursor-shared", f"{RT}:RemoteTransport._handle_response", any(isinstance(s_, ast.Assign) and norm(s_.value) == f"{shared_p}[0]" for s_ in fh.body[:3]), f"each response starts from {shared_p}[0]")


MUTANTS = [
    Mutant("v1 body reply forgets the bytes behind the body", PF, "                self._send_response(self.request.response)\n                self.unused_data = self.in_buffer\n                self.in_buffer = b\"\"\n            else:\n", "                self._send_response(self.request.response)\n                self.in_buffer = b\"\"\n            else:\n", expect="R11-v1-reply-keeps-following-bytes"),
    Mutant("send_all counts the offered bytes as sent", "breezy/osutils.py", "            sent_total += sent\n", "            sent_total += min(MAX_SOCKET_CHUNK, byte_count - sent_total)\n", expect="R9-send-advances-by-accepted"),
    Mutant("readv cursor not shared on the in-order path", "breezy/transport/remote.py", "                    yield cur_offset_and_size[0], this_data\n                    try:\n                        cur_offset_and_size = next_offset[0] = next(offset_stack)\n", "                    yield cur_offset_and_size[0], this_data\n                    try:\n                        cur_offset_and_size = next(offset_stack)\n", expect="R10-readv-cursor-shared"),
    Mutant("stream byte counter moved above the error-chunk test", PF, "                    if isinstance(chunk, request.FailedSmartServerResponse):\n                        self._write_error_status()\n                        self._write_structure(chunk.args)\n                        break\n                    num_bytes += len(chunk)\n", "                    num_bytes += len(chunk)\n                    if isinstance(chunk, request.FailedSmartServerResponse):\n                        self._write_error_status()\n                        self._write_structure(chunk.args)\n                        break\n", expect="R8-error-chunk-recognised-first"),
    Mutant("big writes bypass the encoder buffer", PF, "        self._buf.append(bytes)\n        self._buf_len += len(bytes)\n", "        if len(bytes) > self.BUFFER_SIZE:\n            self._real_write_func(bytes)\n            return\n        self._buf.append(bytes)\n        self._buf_len += len(bytes)\n", expect="R6-encoder-single-writer"),
    Mutant("decoder restart bypasses its own guard", PF, "            # So we call accept_bytes again to restart it.\n            self.accept_bytes(b\"\")\n", "            _StatefulDecoder.accept_bytes(self, b\"\")\n", expect="R7-restart-through-guard"),
    Mutant("encoder writes an unknown kind byte", PF, "        self._write_func(b\"s\")\n", "        self._write_func(b\"x\")\n", expect="R1-part-kinds"),
    Mutant("length prefix packed as !H", PF, "        self._write_func(b\"b\")\n        self._write_func(struct.pack(\"!L\", len(bytes)))", "        self._write_func(b\"b\")\n        self._write_func(struct.pack(\"!H\", len(bytes)))", expect="R1-length-prefix"),
    Mutant("state advanced after the handler ran", PF, "        prefixed_bytes = self._extract_length_prefixed_bytes()\n        self.state_accept = self._state_accept_expecting_message_part\n        try:\n            self.message_handler.bytes_part_received(prefixed_bytes)\n        except BaseException as e:\n            raise SmartMessageHandlerError(sys.exc_info()) from e\n", "        prefixed_bytes = self._extract_length_prefixed_bytes()\n        try:\n            self.message_handler.bytes_part_received(prefixed_bytes)\n        except BaseException as e:\n            raise SmartMessageHandlerError(sys.exc_info()) from e\n        self.state_accept = self._state_accept_expecting_message_part\n", expect="R3-state-before-handler"),
    Mutant("unused data cleared before it is saved", PF, "        self.unused_data = self._get_in_buffer()\n        self._set_in_buffer(None)\n        self.state_accept = self._state_accept_reading_unused\n        try:\n            self.message_handler.end_received()", "        self._set_in_buffer(None)\n        self.unused_data = self._get_in_buffer()\n        self.state_accept = self._state_accept_reading_unused\n        try:\n            self.message_handler.end_received()", expect="R3-unused-data-kept"),
    Mutant("streaming reader skips ahead on error status", MS, "                yield bytes_part\n            self._read_more()\n", "                yield bytes_part\n            self._read_more()\n            if self._body_stream_status == b\"E\":\n                self._wait_for_response_end()\n", expect="R5-stream-single-step"),
    Mutant("status byte renamed on the encoder only", PF, "        self._write_func(b\"oE\")", "        self._write_func(b\"oF\")", expect="R1-status-bytes"),
    Mutant("neutral: elif arms of the dispatcher reordered", PF, "        if message_part_kind == b\"o\":\n            self.state_accept = self._state_accept_expecting_one_byte\n        elif message_part_kind == b\"s\":\n            self.state_accept = self._state_accept_expecting_structure\n", "        if message_part_kind == b\"s\":\n            self.state_accept = self._state_accept_expecting_structure\n        elif message_part_kind == b\"o\":\n            self.state_accept = self._state_accept_expecting_one_byte\n", neutral=True),
]
