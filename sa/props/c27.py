"""C27 — lock operations leave recoverable state at every crash point: ordering obligations."""

import ast

from ..astutil import call_attr, call_recv, calls_in, norm, param_names, walk_own
from ..cfg import assigns_to
from ..rules import calling, fn_cfg, k1_before, k1_never_after, k2_unreachable, need
from ..selftest import Mutant
from . import c26

ID = "C27"
TECHNIQUE = "CFG ordering rules (info-before-rename, rename-before-delete, held-flag after rename) and exception-type routing on LockDir (ast)"
FLOOR = 16
LD = c26.LD
EXPLANATION = """
R1 (K1) _create_pending_dir writes the holder info file into the pending directory before every return and returns the
   directory it created; _attempt_lock renames exactly that directory into held/ — so a held/ directory always carries
   its info file, whatever prefix of the operations was executed.
R2 (K1, = C26-R1) the lock is marked held only after the rename into held/ completed normally and nothing raises after
   that: a failed acquisition never leaves the failing process believing it holds the lock. (Pending-dir cleanup in the
   re-raising handlers is listed as information: a leaked *.tmp directory is clutter, not a held lock.)
R3 (K4, = C26-R2) nothing is ever deleted under held/; unlock, force_break and force_break_corrupt delete only after the
   rename to a tmp name, and unlock drops its held flag immediately after that rename, before the deletes that may fail.
R4 (K6 on exception types) peek() turns NoSuchFile into "not held" (no exception escapes, normal return); break_lock
   routes LockCorrupt to force_break_corrupt, so an unreadable info file can still be broken explicitly.
R5 (K1) _remove_pending_dir removes only paths built from its tmpname argument, info file first.
R6 (fourth round): no transport call (peek, transport.*) between the successful rename into held/ and `_lock_held = True` has an
   unhandled exception edge out of _attempt_lock (today: KNOWN FINDING, the read-back peek()).
Does not decide: the crash prefixes themselves (that is fault enumeration); it decides the orderings under which every
prefix is recoverable.
"""
ASSUMPTIONS = c26.ASSUMPTIONS

PUTS = {"put_bytes", "put_bytes_non_atomic", "put_file", "put_file_non_atomic"}


def run(ctx):
    repo = ctx.repo
    cls = repo.cls(LD, "LockDir")
    # ---- R1 ----------------------------------------------------------------
    fn, g, where = fn_cfg(ctx, LD, "LockDir._create_pending_dir")
    mk = need(where, calling(g, attr="mkdir", recv="self.transport"), "transport.mkdir(tmpname)")
    dirs = {norm(c.args[0]) for i in mk for c in g.nodes[i].calls() if call_attr(c) == "mkdir" and c.args}
    ctx.require(len(dirs) == 1, f"{where}: mkdir called on several names {dirs}")
    d = dirs.pop()
    puts = need(where, calling(g, attr=PUTS, argpred=lambda c: c.args and d in norm(c.args[0]) and "INFO_NAME" in norm(c.args[0])), "info file written into the pending dir")
    rets = [n.id for n in g.nodes if n.kind == "stmt" and isinstance(n.ast, ast.Return)]
    need(where, rets, "return")
    k1_before(ctx, "R1-info-before-return", where, g, puts, rets, "the info file is written into the pending directory before it is handed back for renaming")
    k1_before(ctx, "R1-mkdir-before-info", where, g, mk, puts, "the pending directory is created before the info file is written")
    ctx.check("R1-returns-pending-dir", where, all(norm(g.nodes[i].ast.value) == d for i in rets), f"_create_pending_dir returns the directory it created (`{d}`)", construct="; ".join(norm(g.nodes[i].ast) for i in rets))
    ctx.check("R1-pending-is-tmp", where, any(isinstance(s, ast.Assign) and norm(s.targets[0]) == d and ".tmp" in norm(s.value) and "_held" not in norm(s.value) for s in walk_own(fn)), "the pending directory has a fresh *.tmp name (never held/ itself)")
    fn, g, where = fn_cfg(ctx, LD, "LockDir._attempt_lock")
    ren = need(where, calling(g, attr="rename", argpred=lambda c: len(c.args) == 2 and norm(c.args[1]) == "self._held_dir"), "rename(tmp, held)")
    src_names = {norm(c.args[0]) for i in ren for c in g.nodes[i].calls() if call_attr(c) == "rename"}
    pend = {norm(s.targets[0]) for s in walk_own(fn) if isinstance(s, ast.Assign) and isinstance(s.value, ast.Call) and call_attr(s.value) == "_create_pending_dir"}
    ctx.check("R1-rename-pending-dir", where, src_names and src_names <= pend, "the directory renamed into held/ is the one _create_pending_dir() returned (info file included)", construct=str(sorted(src_names)))
    creat = need(where, calling(g, attr="_create_pending_dir"), "_create_pending_dir()")
    k1_before(ctx, "R1-rename-pending-dir", where, g, creat, ren, "the pending directory exists before the rename")
    # nothing writes into held/ directly
    direct = []
    for item in cls.body:
        if isinstance(item, ast.FunctionDef):
            for c in calls_in(item):
                if call_attr(c) in PUTS | {"mkdir"} and c.args and c26._is_held(c.args[0]):
                    direct.append(f"{item.name}: {norm(c)[:70]}")
    ctx.check("R1-no-direct-write-into-held", f"{LD}:LockDir", not direct, "held/ is populated only by the rename (no mkdir/put on a held path)", construct="; ".join(direct))

    # ---- R2 ----------------------------------------------------------------
    held = need(where, [i for i in g.find(assigns_to("self._lock_held")) if norm(g.nodes[i].ast.value) == "True"], "self._lock_held = True")
    cut = {(r, b, l) for r in ren for (b, l) in g.succ[r] if l != "X"}
    hit = set(held) & g.copy_without(cut).reachable_from_entry()
    ctx.check("R2-held-only-on-success", where, not hit, "the held flag is set only after the rename into held/ succeeded")
    # ---- R6: between the rename into held/ and the held flag no transport fault can end the attempt unnoticed -------------
    post_ren = g.copy_without({(r, b, l) for r in ren for (b, l) in g.succ[r] if l == "X"})
    fallible27 = [n.id for n in g.nodes if n.id in post_ren.reach(ren) and n.kind == "stmt" and n.id not in ren and any(call_attr(c) == "peek" or "transport" in (call_recv(c) or "") for c in n.calls()) and n.id not in held]
    bad27 = []
    for nid in fallible27:
        xs = [b for (b, l) in g.succ[nid] if l == "X"]
        # the builder draws exception edges only inside try blocks: no X edge at all means "not covered by any handler"
        if not xs or g.raise_exit in xs:
            bad27.append(nid)
    ctx.check("R6-fault-after-rename-handled", where, not bad27, "a transport call between the successful rename and `_lock_held = True` does not raise straight out of the attempt (a handler gives the lock back or the flag is set first)", construct=g.nodes[bad27[0]].text() if bad27 else "", message=f"`{g.nodes[bad27[0]].text() if bad27 else ''}` runs after held/ was renamed into place and before the held flag is set, with no handler: a transport fault there ends attempt_lock() with an error while lock/held stays on disk under this process's nonce — the failed acquisition leaves the lock held by the failing process (is_held is False, unlock() refuses, only break-lock removes it)")
    raises = [n.id for n in g.nodes if n.kind == "stmt" and isinstance(n.ast, ast.Raise)]
    k1_never_after(ctx, "R2-held-only-on-success", where, g, held, raises, "no failure exit after the held flag was set")
    for n in g.nodes:
        if n.kind == "handler":
            body_calls = [call_attr(c) for s in n.ast.body for c in calls_in(s)]
            reraises = any(isinstance(s, ast.Raise) for b in n.ast.body for s in ast.walk(b))
            if reraises:
                ctx.info("R2", where, f"handler `except {norm(n.ast.type)[:50]}` re-raises; pending-dir cleanup {'present' if '_remove_pending_dir' in body_calls else 'ABSENT (clutter only)'}")

    # ---- R3 ----------------------------------------------------------------
    bad, ndel = c26.held_path_deletes(cls)
    ctx.require(ndel >= 6, f"only {ndel} transport delete calls in LockDir")
    ctx.check("R3-delete-only-under-tmp", f"{LD}:LockDir", not bad, f"none of the {ndel} delete/rmdir calls addresses held/", construct="; ".join(f"{m}: {norm(c)}" for m, c in bad))
    ctx.require(len(c26.held_path_deletes(ast.parse(c26.POSITIVE_CONTROL).body[0])[0]) == 2, "positive control failed")
    for meth in ("unlock", "force_break", "force_break_corrupt"):
        fn, g, where = fn_cfg(ctx, LD, f"LockDir.{meth}")
        ren = calling(g, attr="rename", argpred=lambda c: len(c.args) == 2 and norm(c.args[0]) == "self._held_dir")
        if not ren:
            ctx.check("R3-rename-before-delete", where, False, "held/ is renamed to a tmp name before anything is deleted", message=f"{meth} takes the held directory apart in place (no atomic rename first): a crash in between leaves held/ without readable holder info")
            continue
        dels = need(where, calling(g, attr=c26.DELETES), "deletes")
        k1_before(ctx, "R3-rename-before-delete", where, g, ren, dels, "deletes come after the atomic rename to a tmp name")
        if meth == "unlock":
            rel = [i for i in g.find(assigns_to("self._lock_held")) if i in g.reach(ren)]
            need(where, rel, "_lock_held = False after rename")
            k1_before(ctx, "R3-flag-before-deletes", where, g, rel, dels, "unlock drops its held flag right after the rename, before the deletes that may fail")

    # ---- R4 ----------------------------------------------------------------
    fn, g, where = fn_cfg(ctx, LD, "LockDir.peek")
    hs = [n.id for n in g.nodes if n.kind == "handler" and "NoSuchFile" in norm(n.ast.type)]
    need(where, hs, "except NoSuchFile")
    r = g.reach(hs)
    ctx.check("R4-peek-nosuchfile", where, g.exit in r and g.raise_exit not in r, "peek(): a missing info file means 'not held' (returns None, does not raise)")
    reads = need(where, calling(g, attr="_read_info_file"), "_read_info_file")
    ctx.check("R4-peek-reads-held-info", where, all(norm(c.args[0]) == "self._held_info_path" for i in reads for c in g.nodes[i].calls() if call_attr(c) == "_read_info_file"), "peek() reads held/info")
    fn, g, where = fn_cfg(ctx, LD, "LockDir.break_lock")
    hs = [n.id for n in g.nodes if n.kind == "handler" and "LockCorrupt" in norm(n.ast.type)]
    need(where, hs, "except LockCorrupt")
    fbc = calling(g, attr="force_break_corrupt", recv="self")
    ctx.check("R4-corrupt-routed", where, bool(fbc) and set(fbc) <= g.reach(hs) and not (set(fbc) & g.reach([g.entry], avoid=hs, include_src=True)), "break_lock routes a corrupt info file to force_break_corrupt (and only that)")

    # ---- R5 ----------------------------------------------------------------
    fn, g, where = fn_cfg(ctx, LD, "LockDir._remove_pending_dir")
    p = [x for x in param_names(fn) if x != "self"]
    ctx.require(len(p) == 1, f"{where}: expected one parameter")
    dels = need(where, calling(g, attr=c26.DELETES), "deletes")
    okp = all(p[0] in norm(c.args[0]) for i in dels for c in g.nodes[i].calls() if call_attr(c) in c26.DELETES)
    ctx.check("R5-remove-pending-only", where, okp, f"_remove_pending_dir deletes only paths built from `{p[0]}`")
    dfile = calling(g, attr="delete")
    ddir = calling(g, attr="rmdir")
    if dfile and ddir:
        k1_before(ctx, "R5-remove-pending-only", where, g, dfile, ddir, "info file removed before the directory")


MUTANTS = [
    Mutant("info file written after the rename into held/", LD, "        self.transport.put_bytes_non_atomic(tmpname + self.__INFO_NAME, info.to_bytes())\n        return tmpname\n", "        self._pending_info = info\n        return tmpname\n", expect="ANALYSIS-ERROR"),
    Mutant("info file written only on the retry path", LD, "        info = LockHeldInfo.for_this_process(self.extra_holder_info)\n        self.nonce = info.nonce\n", "        info = LockHeldInfo.for_this_process(self.extra_holder_info)\n        self.nonce = info.nonce\n        if self.extra_holder_info is None:\n            return tmpname\n", expect="R1-info-before-return"),
    Mutant("rename a directory other than the pending one", LD, "                self.transport.rename(tmpname, self._held_dir)\n                break", "                self.transport.rename(self.path + \"/pending\", self._held_dir)\n                break", expect="R1-rename-pending-dir"),
    Mutant("force_break deletes under held/", LD, "        self.transport.delete(broken_info_path)\n        self.transport.rmdir(tmpname)\n        result = lock.LockResult(self.transport.abspath(self.path), current_info.nonce)", "        self.transport.delete(self._held_info_path)\n        self.transport.rmdir(tmpname)\n        result = lock.LockResult(self.transport.abspath(self.path), current_info.nonce)", expect="R3-delete-only-under-tmp"),
    Mutant("unlock keeps the held flag until the deletes are done", LD, "            self._lock_held = False\n            self.transport.delete(tmpname + self.__INFO_NAME)\n            try:\n                self.transport.rmdir(tmpname)", "            self.transport.delete(tmpname + self.__INFO_NAME)\n            self._lock_held = False\n            try:\n                self.transport.rmdir(tmpname)", expect="R3-flag-before-deletes"),
    Mutant("peek lets NoSuchFile escape as an error", LD, "        except NoSuchFile:\n            self._trace(\"peek -> not held\")\n", "        except NoSuchFile:\n            self._trace(\"peek -> not held\")\n            raise\n", expect="R4-peek-nosuchfile"),
    Mutant("held flag set on a failing path", LD, "            except Exception as e:\n                self._trace(\"... lock failed, %s\", e)\n                self._remove_pending_dir(tmpname)\n                raise\n", "            except Exception as e:\n                self._trace(\"... lock failed, %s\", e)\n                self._lock_held = True\n                self._remove_pending_dir(tmpname)\n                raise\n", expect="R2-held-only-on-success"),
    Mutant("corrupt locks no longer breakable", LD, "            if ui.ui_factory.get_boolean(f\"Break (corrupt {self!r})\"):\n                self.force_break_corrupt(e.file_data)\n            return\n", "            raise\n", expect="R4-corrupt-routed"),
    Mutant("neutral: pending-dir cleanup dropped from one handler (clutter only)", LD, "                except BaseException:\n                    self._remove_pending_dir(tmpname)\n                    raise\n", "                except BaseException:\n                    raise\n", neutral=True),
    Mutant("neutral: random suffix length", LD, "        tmpname = f\"{self.path}/{rand_chars(10)}.tmp\"\n", "        tmpname = f\"{self.path}/{rand_chars(16)}.tmp\"\n", neutral=True),
]
