"""C30 — the smart protocol never asks for bytes beyond the current message (read-size hints)."""

import ast

from ..astutil import call_attr, call_recv, calls_in, const_value, norm, walk_own
from ..index import AnalysisError
from ..selftest import Mutant

ID = "C30"
TECHNIQUE = "def-use of the read-size hint at every consumer (K5), bound table of every next_read_size return against grammar literals of the same class (linear-expression matcher), guard/raise agreement for _NeedMoreBytes (ast)"
FLOOR = 28
PF = "breezy/bzr/smart/protocol.py"
MD = "breezy/bzr/smart/medium.py"
MS = "breezy/bzr/smart/message.py"
EXPLANATION = """
R1 (K5) consumers: in every function that asks a decoder for next_read_size() and then reads from a pipe-like medium
   (medium.py SmartServerPipeStreamMedium._serve_one_request_unguarded, message.py ConventionalResponseHandler._read_more,
   the two body loops of protocol.py), the argument of read_bytes(...) is exactly the hint (the variable it was stored in
   or the call itself), with no arithmetic or constant; SmartMedium.read_bytes passes min(desired_count, ...) on, and the
   pipe medium reads exactly the count it is given. The socket medium is exempt (short reads).
R2 (bound table) every return of every next_read_size in protocol.py has one of the recognised linear shapes and stays
   within the minimum number of bytes the grammar still owes in that state, the minima being derived from the byte
   literals of the same class: bytes_left + k with k <= len(trailer); k - len(self._trailer_buffer) with k <= len(trailer);
   constants <= 1 + len(trailer) (length-prefixed, expecting length), <= len(trailer) / <= 1 (chunked, expecting length with
   empty / non-empty buffer), <= 1 elsewhere; max(0, len(<header literal>) - buffered) with the header literal the decoder
   tests for; _number_needed_bytes - _in_buffer_len; 0 when finished or failed; delegation to the body decoder. An
   unrecognised shape is an analysis error (exit 2), not a guess.
R3 (guard/raise agreement) every `raise _NeedMoreBytes(e)` is guarded by a test showing fewer than e bytes are buffered
   (`self._in_buffer_len < e`, `== 0` for e = 1, `needed_bytes > 0` with needed_bytes = e - self._in_buffer_len, or a failed
   newline search for e = 1).
Does not decide: liveness of the peer, or decoders' behaviour on malformed messages.
"""
ASSUMPTIONS = ["messages are well formed (the property's quantifier)", "callers of ChunkedBodyDecoder/LengthPrefixedBodyDecoder stop on finished_reading before asking for another hint"]

# (literal the decoder compares with, number of bytes the trailer occupies on the wire)
TRAILERS = {"LengthPrefixedBodyDecoder": (b"done\n", 5), "ChunkedBodyDecoder": (b"END", 4)}  # "END" is matched after the line's "\n" was split off
HEADERS = {"ChunkedBodyDecoder": "chunked\n"}
EXEMPT_CONSUMERS = {f"{MD}:SmartServerSocketStreamMedium._serve_one_request_unguarded": "socket reads return short reads instead of blocking"}


def class_literals(cls):
    return {n.value for n in ast.walk(cls) if isinstance(n, ast.Constant) and isinstance(n.value, (bytes, str))}


def _fold(e):
    """Fold integer constant arithmetic (2 + 4, 3 * 2, len(b"done\\n")) into a Constant."""
    if isinstance(e, ast.BinOp):
        l, r = _fold(e.left), _fold(e.right)
        if isinstance(l, ast.Constant) and isinstance(r, ast.Constant) and isinstance(l.value, int) and isinstance(r.value, int):
            ops = {ast.Add: lambda a, b: a + b, ast.Sub: lambda a, b: a - b, ast.Mult: lambda a, b: a * b}
            f = ops.get(type(e.op))
            if f is not None:
                return ast.copy_location(ast.Constant(value=f(l.value, r.value)), e)
        return ast.copy_location(ast.BinOp(left=l, op=e.op, right=r), e)
    if isinstance(e, ast.Call) and isinstance(e.func, ast.Name) and e.func.id == "len" and len(e.args) == 1 and isinstance(e.args[0], ast.Constant) and isinstance(e.args[0].value, (bytes, str)) and not e.keywords:
        return ast.copy_location(ast.Constant(value=len(e.args[0].value)), e)
    return e


def returns_with_conditions(fn):
    """[(Return node, [(test_text, polarity)])] by walking the if/elif tree."""
    out = []

    def walk(stmts, conds):
        for s in stmts:
            if isinstance(s, ast.Return):
                out.append((s, list(conds)))
            elif isinstance(s, ast.If):
                walk(s.body, conds + [(norm(s.test), True)])
                walk(s.orelse, conds + [(norm(s.test), False)])
            elif isinstance(s, (ast.For, ast.While, ast.With, ast.Try)):
                raise AnalysisError(f"unsupported statement {type(s).__name__} in next_read_size")

    walk(fn.body, [])
    return out


def run(ctx):
    repo = ctx.repo
    mod = repo.module(PF)
    # ---- R2 -----------------------------------------------------------------
    n_fns = 0
    for q, fn in mod.functions().items():
        if not q.endswith(".next_read_size"):
            continue
        n_fns += 1
        cname = q.split(".")[0]
        cls = mod.get(cname)
        lits = class_literals(cls)
        where = f"{PF}:{q}"
        trailer = TRAILERS.get(cname)
        tl = 0
        if trailer is not None:
            trailer, tl = trailer
            ctx.check("R2-grammar-literal", where, trailer in lits and tl in (len(trailer), len(trailer) + 1), f"trailer literal {trailer!r} is what {cname} parses", message=f"{cname} no longer parses the trailer {trailer!r}: the bound table would be stale")
        for ret, conds in returns_with_conditions(fn):
            v = _fold(ret.value)
            ctext = " and ".join(("" if pol else "not ") + t for t, pol in conds) or "always"
            state = next((t for t, pol in reversed(conds) if pol and "state_accept" in t), "")
            desc = f"`return {norm(v)}` when {ctext}"
            ok, why = None, ""
            if isinstance(v, ast.Constant) and isinstance(v.value, int):
                c = v.value
                if c == 0:
                    ok = True
                elif cname == "LengthPrefixedBodyDecoder" and "expecting_length" in state:
                    ok, why = c <= 1 + tl, f"<= 1 + len(trailer) = {1 + tl}"
                elif cname == "ChunkedBodyDecoder" and "expecting_length" in state:
                    empty = any(t == "self._in_buffer_len == 0" and pol for t, pol in conds)
                    lim = tl if empty else 1
                    ok, why = c <= lim, f"<= {lim}"
                else:
                    ok, why = c <= 1, "<= 1"
            elif isinstance(v, ast.BinOp) and isinstance(v.op, ast.Add) and norm(v.left) == "self.bytes_left" and isinstance(v.right, ast.Constant):
                ok, why = trailer is not None and v.right.value <= tl, f"k <= len(trailer) = {tl}"
            elif isinstance(v, ast.BinOp) and isinstance(v.op, ast.Sub) and isinstance(v.left, ast.Constant) and norm(v.right) == "len(self._trailer_buffer)":
                ok, why = trailer is not None and v.left.value <= tl, f"k <= len(trailer) = {tl}"
            elif isinstance(v, ast.Call) and norm(v.func) == "max" and len(v.args) == 2 and const_value(v.args[0]) == 0 and isinstance(v.args[1], ast.BinOp) and isinstance(v.args[1].op, ast.Sub) and norm(v.args[1].right) == "self._in_buffer_len":
                lhs = v.args[1].left
                hl = HEADERS.get(cname)
                lit = const_value(lhs.args[0]) if isinstance(lhs, ast.Call) and norm(lhs.func) == "len" and lhs.args else None
                ok, why = lit is not None and hl is not None and lit == hl and (hl in lits or hl.encode() in lits), f"header literal {hl!r}"
            elif norm(v) == "self._number_needed_bytes - self._in_buffer_len":
                ok, why = True, "exactly the bytes still needed"
            elif isinstance(v, ast.Call) and call_attr(v) == "next_read_size" and not v.args:
                ok, why = True, "delegates to the body decoder"
            if ok is None:
                raise AnalysisError(f"{where}: unrecognised read-size expression {desc}")
            ctx.check("R2-read-size-bound", where, ok, f"{desc} is within the bytes still owed ({why})", construct=f"return {norm(v)}", message=f"{desc} asks for more bytes than the message is guaranteed to still contain (bound {why}): a pipe server would block")
    ctx.require(n_fns >= 4, f"only {n_fns} next_read_size implementations found (hand-confirmed: 4)")

    # ---- R1 -----------------------------------------------------------------
    n_cons = 0
    for rel in (MD, MS, PF):
        for q, fn in repo.module(rel).functions().items():
            if q.endswith(".next_read_size"):
                continue
            hints = [c for c in calls_in(fn) if call_attr(c) == "next_read_size"]
            reads = [c for c in calls_in(fn) if call_attr(c) in ("read_bytes", "_read_bytes") and c.args]
            if not hints or not reads:
                continue
            where = f"{rel}:{q}"
            if where in EXEMPT_CONSUMERS:
                ctx.info("R1", where, "exempt: " + EXEMPT_CONSUMERS[where])
                continue
            n_cons += 1
            hint_vars = {norm(s.targets[0]) for s in walk_own(fn) if isinstance(s, ast.Assign) and isinstance(s.value, ast.Call) and call_attr(s.value) == "next_read_size"}
            # the hint variable must not be reassigned
            reassigned = [norm(s) for s in walk_own(fn) if isinstance(s, (ast.Assign, ast.AugAssign)) and any(norm(t) in hint_vars for t in (s.targets if isinstance(s, ast.Assign) else [s.target])) and not (isinstance(s, ast.Assign) and isinstance(s.value, ast.Call) and call_attr(s.value) == "next_read_size")]
            for c in reads:
                a = c.args[0]
                ok = (isinstance(a, ast.Name) and a.id in hint_vars and not reassigned) or (isinstance(a, ast.Call) and call_attr(a) == "next_read_size")
                ctx.check("R1-read-exactly-hint", where, ok, f"`{norm(c)[:60]}` reads exactly the decoder's hint", construct=norm(c)[:80], message=f"`{norm(c)[:70]}` does not read exactly next_read_size(): reading more than the hint can block on a pipe")
    ctx.require(n_cons >= 4, f"only {n_cons} hint consumers found (hand-confirmed: 4)")
    frb = repo.func(MD, "SmartMedium.read_bytes")
    passes = [c for c in calls_in(frb) if call_attr(c) == "_read_bytes"]
    srcs = {norm(s.targets[0]): s.value for s in walk_own(frb) if isinstance(s, ast.Assign) and len(s.targets) == 1}
    ok = bool(passes)
    for c in passes:
        a = c.args[0]
        v = srcs.get(norm(a), a)
        ok = ok and ((isinstance(v, ast.Call) and norm(v.func) == "min" and any(norm(x) == "desired_count" for x in v.args)) or norm(v) == "desired_count")
    ctx.check("R1-medium-never-reads-more", f"{MD}:SmartMedium.read_bytes", ok, "SmartMedium.read_bytes hands at most desired_count to _read_bytes")
    fpr = repo.func(MD, "SmartServerPipeStreamMedium._read_bytes")
    rd = [c for c in calls_in(fpr) if call_attr(c) == "read"]
    ctx.check("R1-medium-never-reads-more", f"{MD}:SmartServerPipeStreamMedium._read_bytes", len(rd) == 1 and norm(rd[0].args[0]) == "desired_count", "the pipe medium reads exactly the count it is given")

    # ---- R4 (shared with C29-R3): the decoder is positioned after a part before the handler sees it ----------
    from ..cfg import assigns_to, build_cfg
    from ..rules import calling

    n_states = 0
    for item in repo.cls(PF, "ProtocolThreeDecoder").body:
        if isinstance(item, ast.FunctionDef) and any(call_recv(c) == "self.message_handler" and call_attr(c) != "protocol_error" for c in calls_in(item)):
            n_states += 1
            g = build_cfg(item)
            hn = calling(g, recv="self.message_handler")
            st = g.find(assigns_to("self.state_accept"))
            ok, w = g.always_before(st, hn) if st else (False, None)
            ctx.check("R4-state-before-handler", f"{PF}:ProtocolThreeDecoder.{item.name}", ok, "the decoder state is advanced before the message handler runs (a handler error cannot desynchronise the byte accounting)", message="the handler runs before the decoder state advanced: after a handler error the next part is read as a length prefix and next_read_size() asks for far more bytes than the message holds", witness=g.show_path(w) if w else None)
    ctx.require(n_states >= 5, f"only {n_states} handler-calling decoder states found")

    # ---- R3 -----------------------------------------------------------------
    n_raise = 0
    for q, fn in mod.functions().items():
        for node in walk_own(fn):
            if isinstance(node, ast.If):
                for b in node.body:
                    if isinstance(b, ast.Raise) and isinstance(b.exc, ast.Call) and norm(b.exc.func) == "_NeedMoreBytes":
                        n_raise += 1
                        e = b.exc.args[0]
                        t = node.test
                        et, tt = norm(e), norm(t)
                        ok = False
                        if tt == f"self._in_buffer_len < {et}":
                            ok = True
                        elif tt == "self._in_buffer_len == 0" and et == "1":
                            ok = True
                        elif isinstance(t, ast.Compare) and isinstance(t.left, ast.Name) and len(t.ops) == 1:
                            # the guard tests a local: accept it by what that local holds
                            src = [norm(s.value) for s in walk_own(fn) if isinstance(s, ast.Assign) and norm(s.targets[0]) == t.left.id]
                            rhs = norm(t.comparators[0])
                            if isinstance(t.ops[0], ast.Eq) and rhs == "-1" and et == "1":
                                # `.find(b"\n")` returned -1: the terminator has not arrived, at least one more byte must
                                ok = len(src) == 1 and ".find(b'\\n')" in src[0]
                            elif isinstance(t.ops[0], ast.Gt) and rhs == "0":
                                ok = src == [f"{et} - self._in_buffer_len"]
                        ctx.check("R3-need-more-guard", f"{PF}:{q}", ok, f"`raise _NeedMoreBytes({et})` is guarded by `{tt}`", construct=f"if {tt}: raise _NeedMoreBytes({et})", message=f"_NeedMoreBytes({et}) is raised under `{tt}`, which does not show that fewer than {et} bytes are buffered: the decoder would ask for bytes the message may not contain")
    for q, fn in mod.functions().items():
        tot = sum(1 for n in walk_own(fn) if isinstance(n, ast.Raise) and isinstance(n.exc, ast.Call) and norm(n.exc.func) == "_NeedMoreBytes")
        n_raise -= tot
    ctx.check("R3-need-more-guard", PF, n_raise == 0, "every _NeedMoreBytes raise sits directly under its guard", message="a _NeedMoreBytes raise is not directly guarded by an if-test")


MUTANTS = [
    Mutant("length-prefixed: bytes_left + 6", PF, "            return self.bytes_left + 5\n", "            return self.bytes_left + 6\n", expect="R2-read-size-bound"),
    Mutant("chunked: reads 8 while expecting a length", PF, "                # left: a digit plus '\\n'.\n                return 2\n", "                # left: a digit plus '\\n'.\n                return 8\n", expect="R2-read-size-bound"),
    Mutant("consumer reads hint + 1", MD, "            bytes = self.read_bytes(bytes_to_read)\n", "            bytes = self.read_bytes(bytes_to_read + 1)\n", expect="R1-read-exactly-hint"),
    Mutant("client reads a fixed chunk", MS, "        data = self._medium_request.read_bytes(next_read_size)\n", "        data = self._medium_request.read_bytes(4096)\n", expect="R1-read-exactly-hint"),
    Mutant("NeedMoreBytes asks for one byte too many", PF, "            raise _NeedMoreBytes(end_of_bytes)\n", "            raise _NeedMoreBytes(end_of_bytes + 1)\n", expect="R3-need-more-guard"),
    Mutant("trailer state over-reads", PF, "            return 5 - len(self._trailer_buffer)\n", "            return 7 - len(self._trailer_buffer)\n", expect="R2-read-size-bound"),
    Mutant("neutral: smaller constant (still within the bound)", PF, "            # 'done\\n').\n            return 6\n", "            # 'done\\n').\n            return 2\n", neutral=True),
]
