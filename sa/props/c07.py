"""C07 — autopack planning is well-formed: shape clauses only (the arithmetic bound is out of reach)."""

import ast

from ..astutil import call_attr, call_recv, calls_in, norm, walk_own
from ..cfg import build_cfg
from ..rules import calling, fn_cfg, k2_unreachable, need
from ..selftest import Mutant
from .c03 import _blocks

ID = "C07"
TECHNIQUE = "guarded early return (K2), return-shape classification and paired-accumulation blocks (K8 over shapes) in the autopack planner (ast)"
FLOOR = 13
PR = "breezy/bzr/pack_repo.py"
COLL = "RepositoryPackCollection"
EXPLANATION = """
R1 (K2) _do_autopack plans nothing when the pack count is already within the bound: under
`self._max_pack_count(total_revisions) >= total_packs` the planner and the executor are unreachable and None is returned;
total_packs is len(self._names) and total_revisions the revision index's key count; packs without revisions are left out of
the plan.
R2 (K8 over return shapes) every return of plan_autopack_combinations is either [] or the one-element list
[[final_rev_count, final_pack_list]] — a single combination; final_rev_count is accumulated by += of exactly the
operation counts whose pack lists are extend()ed into final_pack_list, in the same loop body over the same tuple; each
`pack_operations[-1][0] += n` is in the same block as `pack_operations[-1][1].append(p)` for the (n, p) popped in that
iteration — so the revision count reported for the combination is the sum of the combined packs' counts.
R3 (shape) _max_pack_count is the digit sum of the revision count (sum of int(digit) over str(total), 1 for zero).
Added while testing against seeded changes: R3b pack_distribution / _max_pack_count / the planner use integer
arithmetic only (no floating point) and pack_distribution is built from the decimal digits like _max_pack_count.
Added while testing against seeded changes: R1-total-counted-per-attempt — the revision total that feeds the trigger and
the distribution is counted inside the retried unit (_do_autopack itself, or inside autopack's retry loop when handed in
as an argument), never once before the loop; R2-no-raise-per-operation — the planner raises nothing from inside its
loops (its only internal assertion is on the final, merged combination).
R3 (fourth round) pack_distribution assigns no self.* attribute and returns no self.* value while plan_autopack_combinations deletes from the
   list it is given: the distribution is a fresh list per planning round.
Does not decide: the digit-sum bound after packing, "at least two packs" (the AssertionError for a single pack is
reachable or not depending on integer inputs) or index errors on pack_distribution[0] — unbounded integer arithmetic,
out of reach for static analysis without a solver.
"""


def run(ctx):
    from ..astutil import bound_names, loop_targets, one

    repo = ctx.repo
    fn, g, where = fn_cfg(ctx, PR, f"{COLL}._do_autopack")
    plan = need(where, calling(g, attr="plan_autopack_combinations"), "plan_autopack_combinations(...)")
    ex = need(where, calling(g, attr="_execute_pack_operations"), "_execute_pack_operations(...)")
    # role binding: locals are identified by what they hold
    tr_local = bound_names(fn, lambda t, n: "revision_index" in t and "key_count()" in t)
    if tr_local:
        tr = one(tr_local, "total_revisions = <revision index>.key_count()", where)
        ctx.check("R1-total-counted-per-attempt", where, True, "the revision total is counted inside _do_autopack, i.e. anew on every retry after the pack names were reloaded")
    else:
        # the total arrives as a parameter: it must then be counted inside the retry loop of the caller, after the
        # reload that RetryAutopack stands for — a total from before the reload no longer matches the packs planned over
        params = [a.arg for a in fn.args.args if a.arg != "self"]
        used = [p_ for p_ in params if any(call_attr(c) == "_max_pack_count" and [norm(a) for a in c.args] == [p_] for c in calls_in(fn))]
        tr = one(used, "the revision total (local from key_count() or a parameter handed to _max_pack_count)", where)
        fa = repo.func(PR, f"{COLL}.autopack")
        wa = f"{PR}:{COLL}.autopack"
        loops = [l_ for l_ in walk_own(fa) if isinstance(l_, ast.While) and any(call_attr(c) == "_do_autopack" for c in calls_in(l_))]
        ctx.require(len(loops) == 1, f"{wa}: retry loop around _do_autopack not found")
        inside = {id(x) for x in ast.walk(loops[0])}
        idx = params.index(tr)
        fresh = True
        for c in calls_in(loops[0]):
            if call_attr(c) != "_do_autopack":
                continue
            a = c.args[idx] if idx < len(c.args) else next((k.value for k in c.keywords if k.arg == tr), None)
            if isinstance(a, ast.Name):
                defs = [s_ for s_ in walk_own(fa) if isinstance(s_, ast.Assign) and any(norm(t) == a.id for t in s_.targets)]
                fresh = fresh and bool(defs) and all(id(s_) in inside for s_ in defs)
            elif a is None or not any(call_attr(x) == "key_count" for x in ast.walk(a) if isinstance(x, ast.Call)):
                fresh = False
        ctx.check("R1-total-counted-per-attempt", wa, fresh, "the revision total handed to _do_autopack is counted inside the retry loop", construct=f"_do_autopack({tr}=…) counted before the loop", message="autopack counts the revisions once before its retry loop: after a RetryAutopack the pack names are reloaded (another writer may have added revisions and packs) but the trigger and the distribution still use the old total — the planner is consulted although the pack count is within the bound, or with a distribution that does not cover its packs (IndexError)")
    tp = one(bound_names(fn, lambda t, n: t == "len(self._names)"), "total_packs = len(self._names)", where)
    bound = f"self._max_pack_count({tr}) >= {tp}"
    k2_unreachable(ctx, "R1-nothing-within-bound", where, g, {bound: True, f"{tp} <= self._max_pack_count({tr})": True, f"self._max_pack_count({tr}) < {tp}": False}, plan + ex, "when the pack count is within the bound nothing is planned or executed")
    tests = [norm(n.ast) for n in g.nodes if n.kind == "test" and "_max_pack_count" in norm(n.ast)]
    ctx.check("R1-nothing-within-bound", where, tests and all(t in (bound, f"{tp} <= self._max_pack_count({tr})", f"self._max_pack_count({tr}) < {tp}") for t in tests), "the bound compares the digit sum of the revision count with the number of packs", construct=str(tests))
    g_in = g.assume({bound: True, f"{tp} <= self._max_pack_count({tr})": True, f"self._max_pack_count({tr}) < {tp}": False})
    rets = [n for n in g.nodes if n.kind == "stmt" and isinstance(n.ast, ast.Return) and n.id in g_in.reachable_from_entry()]
    ctx.check("R1-nothing-within-bound", where, len(rets) == 1 and norm(rets[0].ast.value) == "None", "within the bound _do_autopack returns None (nothing packed)")
    rc = one(bound_names(fn, lambda t, n: t.endswith(".get_revision_count()")), "revision_count = pack.get_revision_count()", where)
    skip = [n for n in walk_own(fn) if isinstance(n, ast.If) and norm(n.test) in (f"{rc} == 0", f"not {rc}") and any(isinstance(b, ast.Continue) for b in n.body)]
    ctx.check("R1-empty-packs-left-alone", where, len(skip) == 1, "packs without revisions are not handed to the planner")
    eps = [call_recv(c) for c in calls_in(fn) if call_attr(c) == "append" and c.args and isinstance(c.args[0], ast.Tuple) and len(c.args[0].elts) == 2 and norm(c.args[0].elts[0]) == rc]
    pd = bound_names(fn, lambda t, n: t == f"self.pack_distribution({tr})")
    args = [norm(a) for i in plan for c in g.nodes[i].calls() if call_attr(c) == "plan_autopack_combinations" for a in c.args]
    ctx.check("R1-planner-arguments", where, len(eps) == 1 and len(pd) == 1 and args == [eps[0], pd[0]], "the planner gets (revision count, pack) pairs and the distribution for the total revision count", construct=str(args))

    fp = repo.func(PR, f"{COLL}.plan_autopack_combinations")
    wp = f"{PR}:{COLL}.plan_autopack_combinations"
    # the final accumulation loop: `for a, b in <po>: A += a; B.extend(b)`
    acc = None
    for n in walk_own(fp):
        if isinstance(n, ast.For) and isinstance(n.target, ast.Tuple) and len(n.target.elts) == 2:
            a_, b_ = (norm(e) for e in n.target.elts)
            s0 = [x for x in n.body if isinstance(x, ast.AugAssign) and isinstance(x.op, ast.Add) and norm(x.value) == a_]
            s1 = [x for x in n.body if isinstance(x, ast.Expr) and isinstance(x.value, ast.Call) and call_attr(x.value) == "extend" and [norm(y) for y in x.value.args] == [b_]]
            if len(s0) == 1 and len(s1) == 1:
                acc = (norm(n.iter), norm(s0[0].target), call_recv(s1[0].value))
                acc_loop = n
    ctx.check("R2-count-is-sum-of-combined", wp, acc is not None, "the count and the pack list of the combination are accumulated together from the same (count, packs) operation", message="the reported revision count and the list of combined packs are no longer accumulated from the same operations")
    po, A, B = acc if acc else ("?", "?", "?")
    rets = [norm(r.value) for r in walk_own(fp) if isinstance(r, ast.Return)]
    shapes = set(rets)
    # "planning never fails with an internal error": the planner's only raise is the final single-pack assertion on the
    # accumulated combination; a raise per operation (inside a loop) fires for inputs the merged combination handles
    in_loops = [r for l_ in walk_own(fp) if isinstance(l_, (ast.For, ast.While)) for r in ast.walk(l_) if isinstance(r, ast.Raise)]
    top_raises = [r for r in walk_own(fp) if isinstance(r, ast.Raise) and r not in in_loops]
    ctx.check("R2-no-raise-per-operation", wp, not in_loops, f"no raise inside the planner's loops ({len(top_raises)} outside)", construct="; ".join(f"L{r.lineno}:{norm(r)[:50]}" for r in in_loops), message="plan_autopack_combinations raises from inside a loop over its operations: a sub-operation that legitimately holds a single pack (the rest of an over-filled bucket) now aborts planning with an internal error although the merged combination has two or more packs")
    ctx.check("R2-return-shapes", wp, f"[[{A}, {B}]]" in shapes and shapes <= {"[]", f"[[{A}, {B}]]"}, f"returns are [] or a single combination: {sorted(shapes)}", construct=str(sorted(shapes)), message=f"plan_autopack_combinations can return {sorted(shapes)}: not 'nothing or a single combination'")
    blocks = _blocks(fp)
    pops = [s for s in walk_own(fp) if isinstance(s, ast.Assign) and isinstance(s.value, ast.Call) and call_attr(s.value) == "pop" and isinstance(s.targets[0], ast.Tuple)]
    ok = len(pops) == 1
    if ok:
        n_, p_ = (norm(e) for e in pops[0].targets[0].elts)
        paired = [blk for blk in blocks if any(norm(s) == f"{po}[-1][0] += {n_}" for s in blk)]
        ok = len(paired) == 1 and any(norm(s) == f"{po}[-1][1].append({p_})" for s in paired[0])
        other = [norm(s) for blk in blocks for s in blk if isinstance(s, (ast.Expr, ast.AugAssign, ast.Assign)) and (f"{po}[-1][1].append" in norm(s) or f"{po}[-1][0] +=" in norm(s)) and blk is not (paired[0] if paired else None)]
        ok = ok and not other
    ctx.check("R2-count-is-sum-of-combined", wp, ok, "each pack added to the pending combination adds its own revision count in the same block", message="a pack can be added to the combination without its revision count (or vice versa)")
    inits = [norm(s.value) for s in walk_own(fp) if isinstance(s, ast.Assign) and norm(s.targets[0]) in (A, B)]
    ctx.check("R2-count-is-sum-of-combined", wp, sorted(inits) == ["0", "[]"], "the accumulators start at 0 and []")
    early = [n for n in walk_own(fp) if isinstance(n, ast.If) and norm(n.test) == "len(existing_packs) <= len(pack_distribution)"]
    ctx.check("R2-return-shapes", wp, len(early) == 1 and norm(early[0].body[0]) == "return []", "nothing is planned when there are no more packs than distribution slots")
    # ---- R3 -----------------------------------------------------------------
    fm = repo.func(PR, f"{COLL}._max_pack_count")
    ds = bound_names(fm, lambda t, n: t == "str(total_revisions)")
    ok = len(ds) == 1
    if ok:
        lt = loop_targets(fm, lambda t, n: t == ds[0])
        sums = [s_ for s_ in walk_own(fm) if isinstance(s_, ast.AugAssign) and isinstance(s_.op, ast.Add) and lt and norm(s_.value) == f"int({lt[0][0]})"]
        rets = [norm(r.value) for r in walk_own(fm) if isinstance(r, ast.Return)]
        ok = len(lt) == 1 and len(sums) == 1 and sorted(rets) == sorted(["1", norm(sums[0].target)]) and any(isinstance(n, ast.If) and norm(n.test) == "not total_revisions" and norm(n.body[0]) == "return 1" for n in walk_own(fm))
        ok = ok and [norm(s_.value) for s_ in walk_own(fm) if isinstance(s_, ast.Assign) and norm(s_.targets[0]) == norm(sums[0].target)] == ["0"]
    ctx.check("R3-digit-sum", f"{PR}:{COLL}._max_pack_count", ok, "_max_pack_count is the decimal digit sum (1 for an empty repository)")
    # the distribution and the bound are exact integer arithmetic on the decimal digits (no floating point)
    for meth in ("pack_distribution", "_max_pack_count", "plan_autopack_combinations"):
        fx = repo.func(PR, f"{COLL}.{meth}")
        fl = [norm(n)[:50] for n in ast.walk(fx) if (isinstance(n, ast.Call) and (norm(n.func).startswith("math.") or norm(n.func) in ("float", "round", "log", "log10", "pow"))) or (isinstance(n, ast.BinOp) and isinstance(n.op, ast.Div)) or (isinstance(n, ast.Constant) and isinstance(n.value, float))]
        ctx.check("R3-integer-exact", f"{PR}:{COLL}.{meth}", not fl, f"{meth} uses integer arithmetic only", construct="; ".join(fl), message=f"{meth} goes through floating point ({'; '.join(fl)}): for some revision counts (e.g. exact powers of ten) the rounded result differs from the decimal digits, so the distribution and the digit-sum bound of _max_pack_count disagree and autopack leaves more packs than the bound")
    fd = repo.func(PR, f"{COLL}.pack_distribution")
    ctx.check("R3-integer-exact", f"{PR}:{COLL}.pack_distribution", any(norm(c) == "str(total_revisions)" for c in calls_in(fd)) and any(isinstance(n, ast.BinOp) and isinstance(n.op, ast.Pow) and norm(n.left) == "10" for n in ast.walk(fd)), "pack_distribution is built from the decimal digits of the revision count (str(total_revisions), powers of ten) like _max_pack_count", message="pack_distribution no longer decomposes the revision count through its decimal digits, as _max_pack_count does: the two can disagree")
    fe = repo.func(PR, f"{COLL}._execute_pack_operations")
    lt = loop_targets(fe, lambda t, n: t == "pack_operations")
    ctx.check("R3-empty-operations-skipped", f"{PR}:{COLL}._execute_pack_operations", len(lt) >= 1 and len(lt[0]) == 2 and any(isinstance(n, ast.If) and norm(n.test) in (f"len({lt[0][1]}) == 0", f"not {lt[0][1]}") and any(isinstance(b, ast.Continue) for b in n.body) for n in walk_own(fe)), "an operation without packs is skipped by the executor")
    # ---- R3: the distribution handed to the planner is a list of its own (the planner consumes it in place) -------------
    fpd = repo.func(PR, "RepositoryPackCollection.pack_distribution")
    wpd = f"{PR}:RepositoryPackCollection.pack_distribution"
    state_w = sorted({norm(t) for a in ast.walk(fpd) if isinstance(a, (ast.Assign, ast.AugAssign)) for t in (a.targets if isinstance(a, ast.Assign) else [a.target]) if norm(t).startswith("self.")})
    state_r = sorted({norm(r_.value) for r_ in ast.walk(fpd) if isinstance(r_, ast.Return) and r_.value is not None and any(isinstance(n_, ast.Attribute) and isinstance(n_.value, ast.Name) and n_.value.id == "self" for n_ in ast.walk(r_.value))})
    fplan = repo.func(PR, "RepositoryPackCollection.plan_autopack_combinations")
    consumes = any(isinstance(d_, ast.Delete) for d_ in ast.walk(fplan)) or any(call_attr(c) in ("pop", "remove") for c in calls_in(fplan))
    ctx.check("R3-distribution-not-shared", wpd, not consumes or (not state_w and not state_r), "pack_distribution keeps nothing on the collection and returns a freshly built list (plan_autopack_combinations deletes from it as it plans)", construct=f"stored {state_w}; returned {state_r}", message=f"pack_distribution keeps its result on the collection ({state_w or state_r}) while plan_autopack_combinations consumes the list in place: a second planning round for the same total (a commit retried on the same object after a failed autopack) gets an emptied distribution and the planner fails with IndexError")


MUTANTS = [
    Mutant("pack distribution remembered on the collection", PR, "        return list(reversed(result))\n", "        self._last_distribution = list(reversed(result))\n        return self._last_distribution\n", expect="R3-distribution-not-shared"),
    Mutant("revisions counted once before the retry loop", PR, '        while True:\n            try:\n                return self._do_autopack()\n            except RetryAutopack:\n                # If we get a RetryAutopack exception, we should abort the\n                # current action, and retry.\n                pass\n\n    def _do_autopack(self):\n        # XXX: Should not be needed when the management of indices is sane.\n        total_revisions = self.revision_index.combined_index.key_count()\n', '        total_revisions = self.revision_index.combined_index.key_count()\n        while True:\n            try:\n                return self._do_autopack(total_revisions)\n            except RetryAutopack:\n                # If we get a RetryAutopack exception, we should abort the\n                # current action, and retry.\n                pass\n\n    def _do_autopack(self, total_revisions):\n', expect="R1-total-counted-per-attempt"),
    Mutant("single-pack assertion per sub-operation", PR, "        for num_revs, pack_files in pack_operations:\n            final_rev_count += num_revs\n", "        for num_revs, pack_files in pack_operations:\n            if len(pack_files) == 1:\n                raise AssertionError(\"single pack\")\n            final_rev_count += num_revs\n", expect="R2-no-raise-per-operation"),
    Mutant("neutral: dead return after the final assertion removed", PR, "                \"We somehow generated an autopack with a single pack file being moved.\"\n            )\n            return []\n", "                \"We somehow generated an autopack with a single pack file being moved.\"\n            )\n", neutral=True),
    Mutant("distribution through math.log", PR, "        digits = reversed(str(total_revisions))\n        result = []", "        import math\n        top = int(math.log(total_revisions, 10))\n        digits = reversed(str(total_revisions))\n        result = []", expect="R3-integer-exact"),
    Mutant("early-return test inverted", PR, "        if self._max_pack_count(total_revisions) >= total_packs:\n            return None", "        if self._max_pack_count(total_revisions) < total_packs:\n            return None", expect="R1-nothing-within-bound"),
    Mutant("count accumulated without the pack", PR, "                pack_operations[-1][0] += next_pack_rev_count\n                # allocate this pack to the next pack sub operation\n                pack_operations[-1][1].append(next_pack)\n", "                pack_operations[-1][0] += next_pack_rev_count\n                if next_pack_rev_count > 1:\n                    pack_operations[-1][1].append(next_pack)\n", expect="R2-count-is-sum-of-combined"),
    Mutant("several combinations returned", PR, "        return [[final_rev_count, final_pack_list]]", "        return [op for op in pack_operations if op[1]]", expect="R2-return-shapes"),
    Mutant("neutral: variables renamed", PR, "        final_rev_count = 0\n        final_pack_list = []\n", "        final_rev_count = 0\n        final_pack_list = []\n        _n = len(pack_operations)\n", neutral=True),
]
