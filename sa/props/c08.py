"""C08 — stacked branches stay readable: refill-before-commit and completeness gates."""

import ast

from ..astutil import call_attr, call_recv, calls_in, norm, walk_own
from ..rules import calling, fn_cfg, k1_before, k2_unreachable, need
from ..selftest import Mutant
from . import c06

ID = "C08"
TECHNIQUE = "CFG ordering and exit classification (K1/K2) on the commit builder's stacking refill, MRO resolution of the 2a completeness check (K7), shared presence-set provenance (K5) (ast)"
FLOOR = 24
VF = "breezy/bzr/vf_repository.py"
GC = "breezy/bzr/groupcompress_repo.py"
PR = "breezy/bzr/pack_repo.py"
EXPLANATION = """
R1 (K1) VersionedFileCommitBuilder.commit: repository._add_revision(rev), then _ensure_fallback_inventories(), then
   commit_write_group(), on every path (a revision is never committed to a stacked repository before its parent
   inventories were copied in).
R2 (K1/K2) _ensure_fallback_inventories: the only non-raising exits are "no fallback repositories" and "nothing left
   missing after the refill loop"; a remainder raises; the keys refilled are exactly the parents whose inventories the
   repository's own (non-fallback) index lacks; pre-2a stacked formats are refused.
R3 (K7) every 2a-family pack collection resolves _check_new_inventories to the GCRepositoryPackCollection override (the
   base returns []), the override's presence sets reach their lookups un-narrowed (shared with C06-R1), and the pack
   collection's _commit_write_group runs it before finishing any pack (shared with C06-R1).
R4 (K2) get_missing_parent_inventories: an empty set is returned only when the format cannot stack, when no parent
   inventory is missing, or (with text checking) when no text is missing; otherwise the missing parents are reported as
   ("inventories", revision id) keys; StreamSink uses its result as the commit gate (shared with C03-R3).
Added while testing against seeded changes: R5 RepoFetcher._fetch_everything_for_search reaches sink.finished() only
through the 'nothing left' edge of a test of the (resume_tokens, missing_keys) just returned by insert_stream; R1b all
four chk root-key sets of the new inventories are walked, interesting with its own uninteresting set.
R6 RepositoryAcquisitionPolicy._add_fallback sets _require_stacking = True on every normal path after a successful
add_fallback_repository(); the flag has readers (sprout / configure_branch / initialize_on_transport_ex).
R7 (fourth round) no *Packer class of the pack modules reads the repository's _fallback_repositories: a repack keeps what the source
   packs hold, whatever the fallback has.
Does not decide: that _check_new_inventories / fileids_altered_by_revision_ids compute the right key sets.
"""


def run(ctx):
    repo = ctx.repo
    # ---- R1 -----------------------------------------------------------------
    fn, g, where = fn_cfg(ctx, VF, "VersionedFileCommitBuilder.commit")
    add = need(where, calling(g, attr="_add_revision", recv="self.repository"), "repository._add_revision(rev)")
    ens = need(where, calling(g, attr="_ensure_fallback_inventories", recv="self"), "_ensure_fallback_inventories()")
    cwg = need(where, calling(g, attr="commit_write_group", recv="self.repository"), "repository.commit_write_group()")
    k1_before(ctx, "R1-refill-before-commit", where, g, ens, cwg, "parent inventories are refilled before the write group is committed")
    k1_before(ctx, "R1-refill-before-commit", where, g, add, ens, "the revision is added before the refill looks for its parents")
    ok, w = g.without_exc_edges().always_after(add, ens, exits=[g.exit])
    ctx.check("R1-refill-before-commit", where, ok, "no normal exit skips _ensure_fallback_inventories()", witness=g.show_path(w) if w else None)

    # ---- R2 -----------------------------------------------------------------
    fn, g, where = fn_cfg(ctx, VF, "VersionedFileCommitBuilder._ensure_fallback_inventories")
    rets = [n.id for n in g.nodes if n.kind == "stmt" and isinstance(n.ast, ast.Return)]
    g_stacked = g.assume({"self.repository._fallback_repositories": True, "not self.repository._fallback_repositories": False})
    from ..astutil import bound_names, one

    # role binding: the locals are found by what they are bound to, not by their names
    mk = one(bound_names(fn, lambda t, n: isinstance(n, ast.Call) and call_attr(n) == "insert_missing_keys"), "missing_keys = sink.insert_missing_keys(...)", where)
    fr = one(bound_names(fn, lambda t, n: t.startswith("list(reversed(") and "_fallback_repositories" in t), "fallback_repos = list(reversed(..._fallback_repositories))", where)
    # with fallbacks present and keys still missing after the loop there must be no normal exit
    loop_tests = [n.id for n in g.nodes if n.kind == "test" and norm(n.ast) in (f"{mk} and {fr}", f"{fr} and {mk}")]
    final_tests = [n.id for n in g.nodes if n.kind == "test" and norm(n.ast) == mk]
    ctx.require(loop_tests and final_tests, f"{where}: refill loop / remainder test not found")
    starts = [b for t in final_tests for (b, l) in g.succ[t] if l == "T"]
    rr = g.reach(starts, include_src=True)
    ctx.check("R2-remainder-raises", where, g.exit not in rr and any(isinstance(g.nodes[i].ast, ast.Raise) for i in rr if g.nodes[i].kind == "stmt"), "keys still missing after the refill loop => error, never a silent return")
    ok, w = g_stacked.always_before(final_tests, [g.exit])
    ctx.check("R2-remainder-raises", where, ok, "with fallback repositories every normal exit passes the remainder test", witness=g.show_path(w) if w else None)
    k2_unreachable(ctx, "R2-pre2a-refused", where, g_stacked, {"self.repository._format.supports_chks": False}, loop_tests, "stacked pre-2a formats are refused before any refill")
    pk = bound_names(fn, lambda t, n: t == "[(p,) for p in self.parents]")
    pm = bound_names(fn, lambda t, n: bool(pk) and t == f"self.repository.inventories._index.get_parent_map({pk[0]})")
    mpk = bound_names(fn, lambda t, n: bool(pm) and f"not in {pm[0]}" in t and isinstance(n, (ast.SetComp, ast.ListComp)) and norm(n.generators[0].iter) == pk[0])
    first_mk = [norm(s_.value) for s_ in sorted((s_ for s_ in walk_own(fn) if isinstance(s_, ast.Assign) and norm(s_.targets[0]) == mk), key=lambda s_: s_.lineno)][:1]
    ok = bool(pk and pm and mpk and first_mk) and f"in {mpk[0]}" in first_mk[0] and "'inventories'" in first_mk[0]
    ctx.check("R2-refill-set", where, ok, "the refilled keys are the parents whose inventories the repository's own index lacks", construct=str({"parent_keys": pk, "parent_map": pm, "missing_parent_keys": mpk, "missing_keys": first_mk}), message="the set of parent inventories to refill is no longer computed against the non-fallback inventory index")
    ins = need(where, calling(g, attr="insert_missing_keys"), "sink.insert_missing_keys(source, missing_keys)")
    ok = all(isinstance(g.nodes[i].ast, ast.Assign) and norm(g.nodes[i].ast.targets[0]) == mk and any(norm(c.args[-1]) == mk for c in g.nodes[i].calls() if call_attr(c) == "insert_missing_keys") for i in ins)
    ctx.check("R2-refill-set", where, ok, "what a fallback could not supply stays in missing_keys for the next fallback / the final test")

    # ---- R3 -----------------------------------------------------------------
    base = (PR, "RepositoryPackCollection")
    subs = []
    for rel in (GC,):
        for q in repo.module(rel).classes():
            if base in repo.mro(rel, q) and (rel, q) != base:
                subs.append((rel, q))
    ctx.require(subs, "no pack collection subclasses in groupcompress_repo.py")
    for rel, q in subs:
        r = repo.resolve_method(rel, q, "_check_new_inventories")
        ctx.check("R3-gc-check-resolves", f"{rel}:{q}", r is not None and r[0] == GC, f"{q} resolves _check_new_inventories to the 2a override", message=f"{q} falls back to the base _check_new_inventories, which checks nothing")
    r = repo.resolve_method(GC, "GCRepositoryPackCollection", "_check_new_inventories")
    if r is not None and r[0] == GC:
        c06.check_presence_sets(ctx, r[2], f"{GC}:GCRepositoryPackCollection._check_new_inventories")
        c06.check_chk_root_sets(ctx, r[2], f"{GC}:GCRepositoryPackCollection._check_new_inventories")
        c06.check_interesting_key_sets(ctx, r[2], f"{GC}:GCRepositoryPackCollection._check_new_inventories")
        names = {call_attr(c) for c in calls_in(r[2])}
        ctx.check("R3-gc-check-no-fallbacks", f"{GC}:GCRepositoryPackCollection._check_new_inventories", "without_fallbacks" in names and not any("_fallback_repositories" in norm(n) for n in walk_own(r[2])), "the completeness check looks only at this repository's own indices (no fallback lookups)")
    fnc, gc, wherec = fn_cfg(ctx, PR, "RepositoryPackCollection._commit_write_group")
    chk = need(wherec, calling(gc, attr="_check_new_inventories", recv="self"), "_check_new_inventories()")
    fin = need(wherec, calling(gc, attr={"finish", "allocate", "_save_pack_names", "autopack"}), "finish/allocate/save")
    k1_before(ctx, "R3-check-before-finish", wherec, gc, chk, fin, "the completeness check precedes finishing/listing any pack")

    # ---- R5: a fetch is finished only when the sink reported nothing missing --------------------------------
    FT = "breezy/bzr/fetch.py"
    fn, g, where = fn_cfg(ctx, FT, "RepoFetcher._fetch_everything_for_search")
    fin = need(where, calling(g, attr="finished", recv="self.sink"), "self.sink.finished()")
    ins = need(where, calling(g, attr="insert_stream", recv="self.sink"), "self.sink.insert_stream(...)")
    for i in ins:
        a = g.nodes[i].ast
        ok_shape = isinstance(a, ast.Assign) and isinstance(a.targets[0], ast.Tuple) and len(a.targets[0].elts) == 2
        ctx.check("R5-fetch-complete-before-finish", where, ok_shape, "insert_stream's (resume_tokens, missing_keys) result is kept", construct=g.nodes[i].text())
        if not ok_shape:
            continue
        rt, mk = (norm(e) for e in a.targets[0].elts)
        for v, what in ((mk, "keys the sink still misses (parent inventories / texts across the stacking boundary)"), (rt, "a write group left suspended")):
            cut = set()
            for t in g.nodes:
                if t.kind == "test" and norm(t.ast) == v:
                    cut |= {(t.id, b, l) for (b, l) in g.succ[t.id] if l == "F"}
                elif t.kind == "test" and norm(t.ast) == f"not {v}":
                    cut |= {(t.id, b, l) for (b, l) in g.succ[t.id] if l == "T"}
            r = g.copy_without(cut).without_exc_edges().reach([i], avoid=set(ins) - {i})
            hit = sorted(set(fin) & r)
            w = g.copy_without(cut).without_exc_edges().path([i], hit, avoid=set(ins) - {i}) if hit else None
            ctx.check("R5-fetch-complete-before-finish", where, not hit, f"after {g.nodes[i].text()[:50]} the fetch is finished only through the 'nothing left' edge of a test of `{v}`", construct=g.nodes[i].text()[:70], message=f"sink.finished() is reachable although `{v}` — {what} — was not tested to be empty: the fetch is reported complete and the branch tip can move to a revision the stacked repository cannot reconstruct", witness=g.show_path(w) if w else None)
    # ---- R4 -----------------------------------------------------------------
    fn, g, where = fn_cfg(ctx, VF, "VersionedFileRepository.get_missing_parent_inventories")
    empties = [n.id for n in g.nodes if n.kind == "stmt" and isinstance(n.ast, ast.Return) and norm(n.ast.value) == "set()"]
    from ..astutil import bound_names, one

    # role binding
    par = one(bound_names(fn, lambda t, n: "get_missing_parents()" in t), "parents = set(...get_missing_parents())", where)
    un = one(bound_names(fn, lambda t, n: t in ("self.inventories._index", "self.inventories")), "unstacked_inventories = self.inventories._index", where)
    pres = one(bound_names(fn, lambda t, n: t.startswith(f"{un}.get_parent_map(")), "present_inventories = <own index>.get_parent_map(...)", where)
    mt = one(bound_names(fn, lambda t, n: t == "set()"), "missing_texts = set()", where)
    import re as _re

    rep_rx = _re.compile(r"\{\('inventories', (\w+)\) for \1, in " + _re.escape(par) + r"\}")
    report = set(bound_names(fn, lambda t, n: rep_rx.fullmatch(t) is not None))
    full = [n.id for n in g.nodes if n.kind == "stmt" and isinstance(n.ast, ast.Return) and n.ast.value is not None and (norm(n.ast.value) in report or rep_rx.fullmatch(norm(n.ast.value)))]
    ctx.require(len(empties) == 3 and full, f"{where}: expected 3 empty returns and the reporting returns, found {len(empties)} / {len(full)}")
    env = {"not self._format.supports_external_lookups": False, f"len({par}) == 0": False, f"not {par}": False, f"not {mt}": False, f"len({mt}) == 0": False}
    g2 = g.assume(env)
    hit = set(empties) & g2.reachable_from_entry()
    ctx.check("R4-missing-parents-reported", where, not hit, "with missing parent inventories (and missing texts) the result is never the empty set", message="get_missing_parent_inventories can report 'nothing missing' although parent inventories are absent")
    ok = any(call_attr(c) == "difference_update" and call_recv(c) == par and norm(c.args[0]) == pres for c in calls_in(fn))
    ctx.check("R4-missing-parents-reported", where, ok, "candidates are the revisions' missing parents minus the inventories present without fallbacks")
    pi = [s_ for s_ in walk_own(fn) if isinstance(s_, ast.Assign) and norm(s_.targets[0]) == un]
    ctx.check("R4-missing-parents-reported", where, len(pi) == 1 and norm(pi[0].value) == "self.inventories._index", "presence is tested against the unstacked (own) inventory index")

    # ---- R6: a repository that was given a fallback makes stacking mandatory for the branch created next ----------
    # RepositoryAcquisitionPolicy._add_fallback: once add_fallback_repository() succeeded, the policy records
    # _require_stacking = True on every normal path — Branch.sprout (format upgrade) and configure_branch (refusal when
    # the branch cannot stack) read it; without it a partial, stacked-style fetch ends in an unstacked branch whose tip
    # cannot be read.
    CD = "breezy/controldir.py"
    fa_, ga_, wa_ = fn_cfg(ctx, CD, "RepositoryAcquisitionPolicy._add_fallback")
    gax = ga_.without_exc_edges()
    addf = need(wa_, calling(gax, attr="add_fallback_repository"), "repository.add_fallback_repository(...)")
    setr = [n.id for n in gax.nodes if n.kind == "stmt" and isinstance(n.ast, ast.Assign) and norm(n.ast.targets[0]) == "self._require_stacking" and norm(n.ast.value) == "True"]
    r6 = gax.reach(addf, avoid=set(setr))
    ctx.check("R6-fallback-makes-stacking-mandatory", wa_, bool(setr) and gax.exit not in r6, "after a successful add_fallback_repository() the policy sets _require_stacking = True on every normal path", message="_add_fallback gives the new repository a fallback without recording that stacking is now required: `brz branch` into a location with a default stacking policy, with a branch format that cannot stack, fetches only the stacked-style subset and then leaves an unstacked branch whose tip cannot be read")
    readers = []
    for rel_ in ("breezy/controldir.py", "breezy/branch.py", "breezy/bzr/bzrdir.py", "breezy/bzr/branch.py"):
        if "_require_stacking" in repo.text(rel_):
            for q_, f_ in repo.module(rel_).functions().items():
                if q_ != "RepositoryAcquisitionPolicy._add_fallback" and any(isinstance(n, ast.Attribute) and n.attr == "_require_stacking" and isinstance(n.ctx, ast.Load) for n in ast.walk(f_)):
                    readers.append(f"{rel_}:{q_}")
    ctx.check("R6-fallback-makes-stacking-mandatory", CD, len(readers) >= 2, f"_require_stacking is read by {readers}")
    # ---- R7: a repack is independent of the fallbacks -----------------------------------------------------------------------
    # The parent inventories a stacked repository stores beyond its own revisions are there on purpose (they make it readable
    # without its fallback); a packer that consults the fallback repositories can decide to drop them.
    offenders = []
    n_pk = 0
    for rel_ in (GC, "breezy/bzr/pack_repo.py", "breezy/bzr/knitpack_repo.py"):
        for cname, cls in repo.module(rel_).classes().items():
            if not cname.endswith("Packer"):
                continue
            n_pk += 1
            for n_ in ast.walk(cls):
                if isinstance(n_, ast.Attribute) and n_.attr in ("_fallback_repositories", "fallback_repositories"):
                    offenders.append(f"{rel_}:{cname} L{n_.lineno}")
    ctx.require(n_pk >= 4, f"only {n_pk} packer classes found (hand-confirmed: 7)")
    ctx.check("R7-repack-ignores-fallbacks", GC, not offenders, "no packer class looks at the repository's fallback repositories", construct="; ".join(offenders), message=f"a packer consults the fallback repositories ({'; '.join(offenders)}): what a repack keeps then depends on what the fallback happens to hold, and the parent inventories a stacked repository stores so that it can be read (and served over the smart server) without its fallback are dropped as 'second copies'")


MUTANTS = [
    Mutant("fallback added without making stacking mandatory", "breezy/controldir.py", "            if self._require_stacking:\n                raise\n        else:\n            self._require_stacking = True\n", "            if self._require_stacking:\n                raise\n", expect="R6-fallback-makes-stacking-mandatory"),
    Mutant("fetch finished although keys are still missing", "breezy/bzr/fetch.py", "            if missing_keys:\n                raise AssertionError(\n                    f\"second push failed to complete a fetch {missing_keys!r}.\"\n                )\n", "            if missing_keys:\n                mutter(\"fetch incomplete: %r\", missing_keys)\n", expect="R5-fetch-complete-before-finish"),
    Mutant("pid map walked from the id_to_entry roots", GC, "            root_key_info.interesting_pid_root_keys,\n            root_key_info.uninteresting_pid_root_keys,", "            root_key_info.interesting_root_keys,\n            root_key_info.uninteresting_pid_root_keys,", expect="R1-chk-roots-walked"),
    Mutant("commit_write_group before the refill", VF, "        self.repository._add_revision(rev)\n        self._ensure_fallback_inventories()\n        if self._owns_transaction:\n            self.repository.commit_write_group()\n", "        self.repository._add_revision(rev)\n        if self._owns_transaction:\n            self.repository.commit_write_group()\n        self._ensure_fallback_inventories()\n", expect="R1-refill-before-commit"),
    Mutant("refill remainder returns instead of raising", VF, "        if missing_keys:\n            raise errors.BzrError(\n                \"Unable to fill in parent inventories for a stacked branch\"\n            )\n", "        if missing_keys:\n            trace.mutter(\"Unable to fill in parent inventories for a stacked branch\")\n", expect="R2-remainder-raises"),
    Mutant("refill set computed against the stacked view", VF, "        parent_map = self.repository.inventories._index.get_parent_map(parent_keys)\n        missing_parent_keys", "        parent_map = self.repository.inventories.get_parent_map(parent_keys)\n        missing_parent_keys", expect="R2-refill-set"),
    Mutant("missing parents reported as nothing when texts are checked", VF, "        if not check_for_missing_texts:\n            return {(\"inventories\", rev_id) for (rev_id,) in parents}\n", "        if not check_for_missing_texts:\n            return set()\n", expect="ANALYSIS-ERROR"),
    Mutant("presence tested through the fallbacks", VF, "        unstacked_inventories = self.inventories._index\n", "        unstacked_inventories = self.inventories\n", expect="R4-missing-parents-reported"),
    Mutant("neutral: early guards reordered", VF, "        if not self.repository._fallback_repositories:\n            return\n        if not self.repository._format.supports_chks:", "        if not self.repository._fallback_repositories:\n            return None\n        if not self.repository._format.supports_chks:", neutral=True),
]
