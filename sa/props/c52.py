"""C52 — reconfiguration preserves tip, revisions, tags and uncommitted work: the copy-before-destroy orderings only.

That an upgrade or reconfiguration yields equal testaments and trees is value equality over histories and layouts and is
not decided.  What is in the shape of Reconfigure.apply is the order of its steps: nothing is destroyed before what it
holds was copied or captured."""

import ast

from ..astutil import call_attr, call_recv, calls_in, norm, walk_own
from ..cfg import assigns_to
from ..rules import calling, fn_cfg, k1_before, k2_unreachable, need
from ..selftest import Mutant

ID = "C52"
TECHNIQUE = "CFG ordering and guard rules (K1/K2/K5) on Reconfigure.apply: fetch before destroy_repository, tip and tags captured before destroy_branch, uncommitted-changes check before any destructive step (ast)"
FLOOR = 14
RC = "breezy/reconfigure.py"
EXPLANATION = """
P1 (K1/K2) revisions: controldir.destroy_repository() comes after every fetch in apply() and is the last destructive
step; with _destroy_repository set and either a new reference or a surviving local branch, a fetch *out of*
self.repository is reached before it; a new repository (create_repository) is filled by repo.fetch from the branch that
stays.
P2 (K1/K5) tip: each controldir.destroy_branch() is preceded, in its own branch of the code, by capturing
last_revision_info from the branch being destroyed; a branch created afterwards is set to exactly that captured info.
P3 (K1) tags: when the local branch is replaced by a reference its tags are merged into the reference's branch before
destroy_branch(); when a reference is replaced by a new local branch the referenced branch's tags are merged into it.
P4 (K1/K2) uncommitted work: without force, _check() runs before any destroy_*/create_* step; _check raises
UncommittedChanges when the tree is to be destroyed and has changes, and UnsyncedBranches when the branch to be replaced
by a reference has a different tip than the reference target.
P5 (K1) upgrade.Convert.convert: needs_format_conversion / can_convert_format / check_conversion_target(format) all
precede backup_bzrdir() and every converter step: an incompatible target is refused before anything is moved.
P6 (K1) Converter3to4.convert: create_dirstate_data, then update_format, then remove_xml_files — the marker is switched
between writing the new data and deleting the old.
P7 (third round) with _create_branch set and a referenced branch, repo.fetch(self.referenced_branch.repository, …) lies on every path to
   controldir.create_branch(), whether the repository is created or reused.
P8 a repository created while the tree is kept also receives the tree's pending merge parents; P9 the repository that takes over under
   --use-shared is checked to be shared before the own one is destroyed (both: known findings on this tree).
P10 Reconfigure._check and cmd_remove_tree.run both ask the shelf manager and raise ShelvedChanges before a tree is destroyed.
Does not decide: the other converters, nor that the copied data is equal (values); those stay not applicable.
"""
DESTROY = {"destroy_branch", "destroy_repository", "destroy_workingtree"}


def run(ctx):
    repo = ctx.repo
    fn, g, where = fn_cfg(ctx, RC, "Reconfigure.apply", roles={"reference_branch": ("assign", "branch.Branch.open(self._select_bind_location())"), "local_branch": ("assign", "self.controldir.create_branch()"), "last_revision_info": ("assign", "self.referenced_branch.last_revision_info()"), "repo": ("assign", "self.repository")})
    dr = need(where, calling(g, attr="destroy_repository", recv="self.controldir"), "controldir.destroy_repository()")
    db = need(where, calling(g, attr="destroy_branch", recv="self.controldir"), "controldir.destroy_branch()")
    dt = need(where, calling(g, attr="destroy_workingtree", recv="self.controldir"), "controldir.destroy_workingtree()")
    fetches = need(where, calling(g, attr="fetch"), "fetch(...)")
    # ---- P1 -----------------------------------------------------------------------------------
    after = g.reach(dr)
    late = sorted(set(fetches + db + dt) & after)
    ctx.check("P1-fetch-before-destroy-repository", where, not late, "destroy_repository() is the last destructive step: no fetch, destroy_branch or destroy_workingtree follows it", construct="; ".join(g.nodes[i].text() for i in late), message="a step that still needs the old repository (or branch) runs after destroy_repository()")
    out = [i for i in fetches if any(call_attr(c) == "fetch" and c.args and norm(c.args[0]) == "self.repository" for c in g.nodes[i].calls())]
    need(where, out, "<new repo>.fetch(self.repository)")
    for env, what in (({"self._destroy_repository": True, "self._create_reference": True}, "the branch becomes a reference"), ({"self._destroy_repository": True, "self._create_reference": False, "self.local_branch is not None and (not self._destroy_branch)": True}, "the local branch stays")):
        g2 = g.assume(env)
        r = g2.reach([g2.entry], avoid=set(out), include_src=True)
        hit = sorted(set(dr) & r)
        ctx.check("P1-fetch-before-destroy-repository", where, not hit, f"when the repository is destroyed and {what}, its revisions are fetched out first", message=f"destroy_repository() can be reached although the revisions were not fetched out of self.repository ({what}): the history is lost", witness=g.show_path(g2.path([g2.entry], hit, avoid=set(out))) if hit else None)
    whole = all(len(c.args) == 1 and not c.keywords for i in out for c in g.nodes[i].calls() if call_attr(c) == "fetch" and c.args and norm(c.args[0]) == "self.repository")
    ctx.check("P1-fetch-before-destroy-repository", where, whole, "the fetch out of the repository that is about to be destroyed copies all of it (no revision limit)", construct="; ".join(g.nodes[i].text()[:70] for i in out), message="the revisions of the repository being destroyed are copied only up to one tip: revisions outside that ancestry (dead heads, revisions held by tags) disappear with the repository while their tags are carried over")
    into = [i for i in fetches if any(call_attr(c) == "fetch" and call_recv(c) == "repo" for c in g.nodes[i].calls())]
    g3 = g.assume({"self._create_repository": True, "self.local_branch and (not self._destroy_branch)": True})
    ctx.check("P1-fetch-before-destroy-repository", where, bool(into) and g3.always_before(into, [g3.exit])[0], "a newly created repository is filled from the branch that stays before apply() returns")
    # ---- P2 -----------------------------------------------------------------------------------
    caps = g.find(assigns_to("last_revision_info"))
    for d in db:
        blk = [n for n in walk_own(fn) if isinstance(n, ast.If) and any(call_attr(c) == "destroy_branch" and c.lineno == g.nodes[d].lineno for s in n.body for c in calls_in(s))]
        ok = len(blk) >= 1
        if ok:
            body = blk[-1].body
            idx_d = [i for i, s in enumerate(body) if any(call_attr(c) == "destroy_branch" for c in calls_in(s))][0]
            capt = [i for i, s in enumerate(body) if isinstance(s, ast.Assign) and norm(s.targets[0]) == "last_revision_info" and call_attr(s.value) == "last_revision_info"]
            src = norm(body[capt[0]].value.func.value) if capt else ""
            ok = bool(capt) and capt[0] < idx_d and ((norm(blk[-1].test) == "self._destroy_branch" and src == "self.local_branch") or (norm(blk[-1].test) == "self._destroy_reference" and src == "self.referenced_branch"))
        ctx.check("P2-tip-captured-before-destroy-branch", where, ok, f"L{g.nodes[d].lineno}: the tip of the branch being destroyed is captured before destroy_branch()", construct=g.nodes[d].text(), message="a branch is destroyed without its last_revision_info having been captured from that branch first: the tip is lost (or taken from the wrong branch)")
    sets = [c for c in calls_in(fn) if call_attr(c) == "set_last_revision_info"]
    ctx.check("P2-tip-captured-before-destroy-branch", where, len(sets) == 1 and norm(sets[0]).endswith("set_last_revision_info(*last_revision_info)"), "a branch created afterwards is set to the captured tip", construct="; ".join(norm(c) for c in sets))
    cb = need(where, calling(g, attr="create_branch", recv="self.controldir"), "controldir.create_branch()")
    # ---- P7: a branch created in place of a reference has its history in the repository it will use -------------------
    # (whichever repository that is: a new one, or an existing shared one that is not the referenced branch's)
    # a local that may hold the referenced branch's repository counts as a source as well (old_repo = self.referenced_branch.repository)
    ref_locals = {t.id for a_ in walk_own(fn) if isinstance(a_, ast.Assign) and "referenced_branch" in norm(a_.value) for t in a_.targets if isinstance(t, ast.Name)}
    fetch_ref = [n.id for n in g.nodes if any(call_attr(c) == "fetch" and c.args and ("referenced_branch" in norm(c.args[0]) or (isinstance(c.args[0], ast.Name) and c.args[0].id in ref_locals)) for c in n.calls())]
    need(where, [n.id for n in g.nodes if any(call_attr(c) == "fetch" for c in n.calls())], "repo.fetch(…)")
    for create_repo in (True, False):
        g7 = g.assume({"self._create_branch": True, "self.referenced_branch is not None": True, "self.referenced_branch is None": False, "self._create_repository": create_repo, "self._create_branch and self.referenced_branch is not None": True}).without_exc_edges()
        live_cb = [i for i in cb if i in g7.reachable_from_entry()]
        ok7 = bool(live_cb) and not (set(live_cb) & g7.reach([g7.entry], avoid=set(fetch_ref), include_src=True))
        ctx.check("P7-new-branch-history-fetched", f"{where}[_create_repository={create_repo}]", ok7, f"with _create_branch set and a referenced branch, every path to controldir.create_branch() passes repo.fetch(self.referenced_branch.repository, …) (repository {'created' if create_repo else 'reused'})", message=f"Reconfigure.apply can create the local branch in place of a reference without having fetched the referenced branch's history into the repository it uses (repository {'created' if create_repo else 'reused, e.g. a lightweight checkout inside a shared repository other than the one of its branch'}): the new branch's tip names a revision its repository lacks, tip and testaments are unreadable")
    # ---- P8/P9 (from a third-round agent's observations on the unmodified tree; both are known findings) -------------
    # P8: a repository created for a branch that keeps its working tree also receives the tree's pending merge parents
    crepo = [n for n in walk_own(fn) if isinstance(n, ast.If) and norm(n.test) == "self._create_repository"]
    ctx.require(len(crepo) == 1, f"{where}: `if self._create_repository:` not found")
    fetched = [norm(c) for st in crepo[0].body for c in calls_in(st) if call_attr(c) == "fetch"]
    pend = any("get_parent_ids" in f_ or "pending" in f_ or "self.tree" in f_ for f_ in fetched) or any("get_parent_ids" in norm(st) for st in crepo[0].body)
    if pend:
        ctx.check("P8-pending-merges-fetched", where, True, "the new repository also receives the working tree's pending merge parents")
    else:
        ctx.violation("P8-pending-merges-fetched", where, "; ".join(f_[:70] for f_ in fetched), "when apply() creates a repository for a branch that keeps its working tree it fetches the branch tip only: the revisions of an uncommitted merge (the tree's other parents) stay behind in the shared repository, `reconfigure --standalone` leaves the pending merge as a ghost — the tree's pending changes are not preserved")
    # P9: the repository that takes over before the own one is destroyed is one the branch will find again (a shared one)
    drepo = [n for n in walk_own(fn) if isinstance(n, ast.If) and norm(n.test) == "self._destroy_repository" and any(call_attr(c) == "find_repository" for st in n.body for c in calls_in(st))]
    ctx.require(len(drepo) == 1, f"{where}: the `if self._destroy_repository:` block that looks for the new repository was not found")
    shared_checked = any(call_attr(c) == "is_shared" for c in calls_in(drepo[0])) or any("is_shared" in norm(t_) for n_ in ast.walk(drepo[0]) if isinstance(n_, ast.If) for t_ in [n_.test])
    if shared_checked:
        ctx.check("P9-takeover-repository-is-shared", where, True, "the repository found upward is checked to be shared before the own repository is destroyed")
    else:
        ctx.violation("P9-takeover-repository-is-shared", where, "new_repo = up_controldir.find_repository(); new_repo.fetch(self.repository)", "with --use-shared apply() fetches into whatever repository find_repository() meets above the branch and then destroys the branch's own repository, without asking whether that repository is shared: for a standalone branch nested in another standalone branch the revisions go into the outer, non-shared repository, which the inner branch will not use — it is left with NoRepositoryPresent, tip and history unreachable")
    # ---- P10: both ways of destroying a working tree refuse when it holds shelved changes (unless forced) ----------------
    frt = repo.func("breezy/builtins.py", "cmd_remove_tree.run")
    fck = repo.func(RC, "Reconfigure._check")
    for where_, f_ in ((f"{RC}:Reconfigure._check", fck), ("breezy/builtins.py:cmd_remove_tree.run", frt)):
        asks = any(call_attr(c) == "last_shelf" for c in calls_in(f_)) and any(isinstance(r_, ast.Raise) and "ShelvedChanges" in norm(r_) for r_ in ast.walk(f_))
        ctx.check("P10-shelf-guard", where_, asks, "a working tree with shelved changes is not destroyed without force (ShelvedChanges)", message=f"{where_.split(':')[1]} destroys a working tree without asking its shelf manager: shelved changes live in the tree's control directory and are deleted with it — pending changes of the tree are lost by the reconfiguration")
    # ---- P3 -----------------------------------------------------------------------------------
    mt = [c for c in calls_in(fn) if call_attr(c) == "merge_to"]
    pairs = sorted((norm(c.func.value), norm(c.args[0])) for c in mt)
    ctx.check("P3-tags-carried-over", where, pairs == [("self.local_branch.tags", "reference_branch.tags"), ("self.referenced_branch.tags", "local_branch.tags")], "tags go from the replaced local branch to the reference target, and from a replaced reference to the new local branch", construct=str(pairs), message=f"tag hand-over changed: {pairs}")
    blk = [n for n in walk_own(fn) if isinstance(n, ast.If) and norm(n.test) == "self._destroy_branch"]
    ok = len(blk) == 1
    if ok:
        body = blk[0].body
        i_m = [i for i, s_ in enumerate(body) if any(call_attr(c) == "merge_to" and norm(c.func.value) == "self.local_branch.tags" for c in calls_in(s_))]
        i_d = [i for i, s_ in enumerate(body) if any(call_attr(c) == "destroy_branch" for c in calls_in(s_))]
        ok = len(i_m) == 1 and len(i_d) == 1 and i_m[0] < i_d[0] and isinstance(body[i_m[0]], ast.If) and norm(body[i_m[0]].test) == "self._create_reference"
    ctx.check("P3-tags-carried-over", where, ok, "when the local branch becomes a reference its tags are merged to the target before destroy_branch()", message="the local branch is destroyed before (or without) its tags having been merged into the branch it now refers to")
    # ---- P4 -----------------------------------------------------------------------------------
    chk = need(where, calling(g, attr="_check", recv="self"), "self._check()")
    destructive = dr + db + dt + calling(g, attr="create_repository") + calling(g, attr="initialize") + calling(g, attr="create_workingtree") + calling(g, attr="set_branch_reference") + cb
    gnf = g.assume({"force": False, "not force": True})
    r = gnf.reach([gnf.entry], avoid=set(chk), include_src=True)
    ctx.check("P4-check-before-destruction", where, not (set(destructive + fetches) & r), "without force, _check() runs before any step that creates, copies or destroys", message="a reconfiguration step can run before the uncommitted-changes / unsynced-branches check")
    fc, gc, wc = fn_cfg(ctx, RC, "Reconfigure._check", roles={"reference_branch": ("assign", "branch.Branch.open(self._select_bind_location())")})
    rs = [norm(n.ast)[:60] for n in gc.nodes if n.kind == "stmt" and isinstance(n.ast, ast.Raise)]
    g5 = gc.assume({"self._destroy_tree and self.tree.has_changes()": True, "self._destroy_tree": True, "self.tree.has_changes()": True})
    ctx.check("P4-check-before-destruction", wc, gc.exit not in g5.reachable_from_entry() and any("UncommittedChanges" in r_ for r_ in rs), "a tree with changes that is to be destroyed raises UncommittedChanges", construct="; ".join(rs))
    ctx.check("P4-check-before-destruction", wc, any("UnsyncedBranches" in r_ for r_ in rs) and "reference_branch.last_revision() != self.local_branch.last_revision()" in norm(fc), "replacing a branch by a reference to a branch with another tip raises UnsyncedBranches")
    # ---- P5: upgrade refuses an incompatible target before anything is moved ---------------------------------------
    UPG = "breezy/upgrade.py"
    fu, gu, wu = fn_cfg(ctx, UPG, "Convert.convert", roles={"converter": ("assign", "~self\\.controldir\\._format\\.get_converter\\([^()]*\\)")})
    bk = need(wu, calling(gu, attr="backup_bzrdir", recv="self.controldir"), "self.controldir.backup_bzrdir()")
    cv = need(wu, calling(gu, attr="convert", recv="converter"), "converter.convert(...)")
    pre = calling(gu, attr="check_conversion_target", recv="self.controldir")
    ctx.check("P5-upgrade-preflight", wu, bool(pre), "Convert.convert calls controldir.check_conversion_target(format)", message="the upgrade no longer checks the conversion target up front: an incompatible target (rich-root -> plain, subtree -> non-subtree) is only refused by the repository converter after it has moved the repository aside, leaving the branch without a repository")
    if pre:
        k1_before(ctx, "P5-upgrade-preflight", wu, gu, pre, bk + cv, "the target compatibility check precedes the backup and every converter step")
    for nm in ("needs_format_conversion", "can_convert_format"):
        c_ = calling(gu, attr=nm, recv="self.controldir")
        ctx.check("P5-upgrade-preflight", wu, bool(c_) and gu.always_before(c_, bk)[0], f"{nm}() is consulted before the backup")
    ctx.sample({"tag_handover": pairs, "destructive_calls": sorted({g.nodes[i].text()[:50] for i in destructive})})

    # ---- P6: the tree format converter keeps a readable tree at every instant ------------------------------------------
    # Converter3to4.convert: new-format data is written, then the format marker is switched, and only then are the
    # old-format files removed — at every crash point the marker names a format whose data is complete.
    W4 = "breezy/bzr/workingtree_4.py"
    f6, g6, w6 = fn_cfg(ctx, W4, "Converter3to4.convert")
    mk6 = need(w6, calling(g6, attr="create_dirstate_data"), "self.create_dirstate_data(tree)")
    up6 = need(w6, calling(g6, attr="update_format"), "self.update_format(tree)")
    rm6 = need(w6, calling(g6, attr="remove_xml_files"), "self.remove_xml_files(tree)")
    k1_before(ctx, "P6-converter-marker-between", w6, g6, mk6, up6, "the dirstate is written before the format marker is switched")
    k1_before(ctx, "P6-converter-marker-between", w6, g6, up6, rm6, "the format marker is switched before the old-format files are removed (an interrupted conversion leaves either a complete format-3 or a complete format-4 tree)")

MUTANTS = [
    Mutant("reconfigure destroys a tree with shelved changes (fix reverted)", RC, "            if self.tree.get_shelf_manager().last_shelf() is not None:\n                # As for remove-tree: the shelf lives in the working tree.\n                raise errors.ShelvedChanges(self.tree)\n", "", expect="P10-shelf-guard"),
    Mutant("referenced history fetched only into a new repository", RC, "        else:\n            repo = self.repository\n        if self._create_branch and self.referenced_branch is not None:\n", "        else:\n            repo = self.repository\n        if self._create_repository and self._create_branch and self.referenced_branch is not None:\n", expect="P7-new-branch-history-fetched"),
    Mutant("format marker switched after the old files are gone", "breezy/bzr/workingtree_4.py", "            self.update_format(tree)\n            self.remove_xml_files(tree)\n", "            self.remove_xml_files(tree)\n            self.update_format(tree)\n", expect="P6-converter-marker-between"),
    Mutant("only the tip's ancestry is fetched out", RC, "                reference_branch.repository.fetch(self.repository)\n", "                reference_branch.repository.fetch(self.repository, self.local_branch.last_revision() if self.local_branch is not None else None)\n", expect="P1-fetch-before-destroy-repository"),
    Mutant("upgrade without the target pre-flight", "breezy/upgrade.py", "        self.controldir.check_conversion_target(format)\n", "", expect="P5-upgrade-preflight"),
    Mutant("repository destroyed before the branch work", RC, "        last_revision_info = None\n        if self._destroy_reference:", "        if self._destroy_repository:\n            self.controldir.destroy_repository()\n        last_revision_info = None\n        if self._destroy_reference:", expect="P1-fetch-before-destroy-repository"),
    Mutant("revisions not fetched out when the branch becomes a reference", RC, "            if self._create_reference:\n                reference_branch.repository.fetch(self.repository)\n            elif", "            if self._create_reference and self.local_branch is None:\n                reference_branch.repository.fetch(self.repository)\n            elif", expect="P1-fetch-before-destroy-repository"),
    Mutant("tip captured after the branch is gone", RC, "            last_revision_info = self.local_branch.last_revision_info()\n            if self._create_reference:\n                self.local_branch.tags.merge_to(reference_branch.tags)\n            self.controldir.destroy_branch()\n", "            if self._create_reference:\n                self.local_branch.tags.merge_to(reference_branch.tags)\n            self.controldir.destroy_branch()\n            last_revision_info = self.local_branch.last_revision_info()\n", expect="P2-tip-captured-before-destroy-branch"),
    Mutant("tags merged after destroy_branch", RC, "            if self._create_reference:\n                self.local_branch.tags.merge_to(reference_branch.tags)\n            self.controldir.destroy_branch()\n", "            self.controldir.destroy_branch()\n            if self._create_reference:\n                self.local_branch.tags.merge_to(reference_branch.tags)\n", expect="P3-tags-carried-over"),
    Mutant("check only when a tree is destroyed", RC, "        if not force:\n            self._check()\n", "        if not force and self._destroy_tree:\n            self._check()\n", expect="P4-check-before-destruction"),
    Mutant("neutral: check written positively", RC, "        if not force:\n            self._check()\n", "        if force:\n            pass\n        else:\n            self._check()\n", neutral=True),
]
