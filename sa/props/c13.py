"""C13 — applying a tree transform is all-or-nothing: journal / rollback / commit-point obligations."""

import ast

from ..astutil import call_attr, call_name, call_recv, calls_in, norm, walk_own
from ..cfg import build_cfg
from ..rules import calling, fn_cfg, k1_before, need
from ..selftest import Mutant

ID = "C13"
TECHNIQUE = "who-may-call (K4) on the rename phases, CFG rollback pairing on every exception edge (K3), commit-point ordering (K1) across the bzr and git sibling transforms (ast)"
FLOOR = 38
TR = "breezy/transform.py"
BT = "breezy/bzr/transform.py"
GT = "breezy/git/transform.py"
SIBLINGS = [(BT, "InventoryTreeTransform", "apply_inventory_delta"), (GT, "GitTreeTransform", "_apply_index_changes")]
EXPLANATION = """
For breezy/bzr/transform.py:InventoryTreeTransform and breezy/git/transform.py:GitTreeTransform (sibling
implementations, checked with the same rules):
R1 (K4) _apply_removals/_apply_insertions make no direct name-changing file-system call (os.rename/unlink/rmdir,
   shutil.rmtree/move, delete_any, osutils.rename/rmtree): every rename or removal goes through mover.rename /
   mover.pre_delete and is therefore journalled.
R2 (K1) _FileMover: rename() journals (from, to) only after os.rename returned normally; pre_delete() renames before
   recording the pending deletion; rollback() walks reversed(past_renames) renaming to -> from; apply_deletions() deletes
   only the recorded pending deletions.
R3 (K3) apply(): both phases run inside a try whose handler catches BaseException (or is bare: interrupts roll back too), calls mover.rollback() and
   re-raises on every path; apply_deletions() is unreachable from that handler.
R4 (K1 commit point) once the rename phases completed, every continuation on which a working-tree file-system operation
   (the tabled fallible set: mover.*, delete_any, os/shutil/osutils name- or content-changing calls) can fail still
   reaches the metadata update (apply_inventory_delta / _apply_index_changes): a failure while discarding replaced
   content never leaves the metadata describing the old layout.
R1c a failed mover.rename in either phase is tolerated only for errno.ENOENT; anything else re-raises into the rollback.
Added while testing against seeded changes: R5 the limbo / removal helpers cloned between bzr/transform.py and
git/transform.py have equal effect signatures.
Fourth round: finalizer-disarmed-first — in DiskTreeTransform.finalize (bzr and git) no exception edge leaves before
self._cleanup_finalizer.detach(); parked-name-is-transform-id — _apply_removals joins self._deletiondir with the transform id.
Does not decide: exact restoration for every transform shape; failures of in-memory computation between the phases.
"""
ASSUMPTIONS = ["fault model: only working-tree file-system operations fail (the property's quantifier); in-memory calls between the phases and the metadata update do not"]

FORBIDDEN = {"os.rename", "os.unlink", "os.remove", "os.rmdir", "os.replace", "os.renames", "shutil.rmtree", "shutil.move", "osutils.rename", "osutils.delete_any", "delete_any", "osutils.rmtree", "rmtree", "os.removedirs"}
FALLIBLE_NAMES = FORBIDDEN | {"os.mkdir", "os.makedirs", "os.symlink", "os.link", "os.chmod"}


def fallible(stmt):
    for c in calls_in(stmt):
        if call_recv(c) == "mover" or call_name(c) in FALLIBLE_NAMES:
            return True
    return False


def run(ctx):
    repo = ctx.repo
    # ---- R2: the journal ----------------------------------------------------
    fn, g, where = fn_cfg(ctx, TR, "_FileMover.rename")
    def physical(c):
        # os.rename itself, or a same-class helper whose body performs it
        if call_name(c) == "os.rename":
            return True
        if call_recv(c) == "self":
            h = repo.module(TR).get("_FileMover." + (call_attr(c) or ""))
            return h is not None and any(call_name(x) == "os.rename" for x in calls_in(h))
        return False

    osr = need(where, calling(g, argpred=physical), "os.rename (directly or through a helper)")
    app = need(where, calling(g, attr="append", recv="self.past_renames"), "past_renames.append")
    cut = {(r, b, l) for r in osr for (b, l) in g.succ[r] if l != "X"}
    ok = not (set(app) & g.copy_without(cut).reachable_from_entry())
    ctx.check("R2-journal-after-rename", where, ok, "a rename is journalled only after os.rename returned (a failed rename is not rolled back)")
    okargs = all(norm(c.args[0]) == "(from_, to)" for i in app for c in g.nodes[i].calls() if call_attr(c) == "append")
    ctx.check("R2-journal-after-rename", where, okargs, "the journal entry is (from_, to)")
    ok, w = g.without_exc_edges().always_after(osr, app, exits=[g.exit])
    ctx.check("R2-journal-after-rename", where, ok, "every successful rename is journalled", witness=g.show_path(w) if w else None)
    fn, g, where = fn_cfg(ctx, TR, "_FileMover.pre_delete")
    pend = need(where, calling(g, attr="append", recv="self.pending_deletions"), "pending_deletions.append")
    ren = calling(g, attr="rename", recv="self")
    if not ren:
        ctx.check("R2-predelete-journalled", where, False, "pre_delete moves the file aside through self.rename()", message="pre_delete no longer goes through self.rename(): the move is missing from the single past_renames journal, so rollback cannot undo it in the right order")
        ren = pend
    else:
        ctx.check("R2-predelete-journalled", where, True, "pre_delete moves the file aside through self.rename() (journalled in past_renames)")
    k1_before(ctx, "R2-predelete-renames-first", where, g, ren, pend, "pre_delete moves the file aside (journalled) before recording the deletion")
    ctx.check("R2-predelete-renames-first", where, not [c for c in calls_in(fn) if call_name(c) in FORBIDDEN], "pre_delete deletes nothing itself")
    fn = repo.func(TR, "_FileMover.rollback")
    where = f"{TR}:_FileMover.rollback"
    loops = [n for n in walk_own(fn) if isinstance(n, ast.For)]
    ok = len(loops) == 1 and norm(loops[0].iter) == "reversed(self.past_renames)"
    ctx.check("R2-rollback-reversed", where, ok, "rollback undoes the journal newest-first (reversed(past_renames))", construct=norm(loops[0].iter) if loops else "", message="rollback does not walk the journal in reverse order")
    if loops:
        tgt = [norm(e) for e in loops[0].target.elts] if isinstance(loops[0].target, ast.Tuple) else []
        rn = [c for c in calls_in(loops[0]) if call_name(c) == "os.rename"]
        ok = len(tgt) == 2 and len(rn) == 1 and [norm(a) for a in rn[0].args] == [tgt[1], tgt[0]]
        ctx.check("R2-rollback-reversed", where, ok, "each journal entry (from, to) is undone by os.rename(to, from)", construct=norm(rn[0]) if rn else "")
    fn = repo.func(TR, "_FileMover.apply_deletions")
    where = f"{TR}:_FileMover.apply_deletions"
    loops = [n for n in walk_own(fn) if isinstance(n, ast.For)]
    dels = [c for c in calls_in(fn) if call_name(c) in FORBIDDEN]
    ok = len(loops) == 1 and norm(loops[0].iter) == "self.pending_deletions" and len(dels) == 1 and norm(dels[0].args[0]) == norm(loops[0].target)
    ctx.check("R2-deletes-only-pending", where, ok, "apply_deletions deletes exactly the recorded pending deletions", construct="; ".join(norm(c) for c in dels))

    # ---- R5: the limbo / removal machinery shared by both families stays in step ------------------
    from ..rules import clone_agreement

    clone_agreement(ctx, "R5-sibling-clone", BT, GT, ["DiskTreeTransform._rename_in_limbo", "DiskTreeTransform._limbo_name", "DiskTreeTransform._generate_limbo_path", "DiskTreeTransform._limbo_descendants", "DiskTreeTransform._limbo_supports_executable", "DiskTreeTransform._set_mode", "DiskTreeTransform.create_file", "DiskTreeTransform.create_directory", "DiskTreeTransform._read_symlink_target", "DiskTreeTransform.cancel_creation", "_cleanup_stale_dirs", "TreeTransformBase._set_executability", "TreeTransformBase.apply", "TreeTransformBase.finalize"], "limbo bookkeeping used by apply()")

    for rel, cls, meta in SIBLINGS:
        # ---- R1 --------------------------------------------------------------
        for phase in ("_apply_removals", "_apply_insertions"):
            fn = repo.func(rel, f"{cls}.{phase}")
            where = f"{rel}:{cls}.{phase}"
            bad = [norm(c)[:70] for c in calls_in(fn) if call_name(c) in FORBIDDEN]
            nm = len([c for c in calls_in(fn) if call_recv(c) == "mover"])
            ctx.check("R1-journalled-only", where, not bad and nm >= 1, f"all name changes go through the mover ({nm} mover calls, 0 direct)", construct="; ".join(bad), message="direct file-system rename/delete bypasses the journal (cannot be rolled back): " + "; ".join(bad))
        # ---- R1c: a failed rename is swallowed only for "the source is not there" ------------
        from ..astutil import fold_module_constants

        for phase in ("_apply_removals", "_apply_insertions"):
            fnp = fold_module_constants(repo.module(rel).tree, repo.func(rel, f"{cls}.{phase}"))
            wherep = f"{rel}:{cls}.{phase}"
            hs = [h for h in ast.walk(fnp) if isinstance(h, ast.ExceptHandler) and h.type is not None and "TransformRenameFailed" in norm(h.type)]
            for h in hs:
                swallowed = None
                for t in ast.walk(h):
                    if isinstance(t, ast.If) and any(isinstance(r, ast.Raise) and r.exc is None for r in t.body) and isinstance(t.test, ast.Compare) and len(t.test.ops) == 1 and norm(t.test.left).endswith(".errno"):
                        op, right = t.test.ops[0], t.test.comparators[0]
                        if isinstance(op, ast.NotEq):
                            swallowed = {norm(right)}
                        elif isinstance(op, ast.NotIn):
                            if isinstance(right, ast.Name):
                                defs_ = [s_.value for s_ in repo.module(rel).tree.body if isinstance(s_, ast.Assign) and norm(s_.targets[0]) == right.id]
                                right = defs_[0] if len(defs_) == 1 else right
                            if isinstance(right, (ast.Tuple, ast.List, ast.Set)):
                                swallowed = {norm(e) for e in right.elts}
                reraises_all = any(isinstance(r, ast.Raise) and r.exc is None for r in h.body)
                ok = reraises_all or swallowed == {"errno.ENOENT"}
                ctx.check("R1c-rename-failure-aborts", wherep, ok, f"{phase}: a failed mover.rename is tolerated only for errno.ENOENT (nothing at the source); every other failure propagates to the rollback", construct=str(sorted(swallowed) if swallowed is not None else "handler without an errno test"), message=f"{cls}.{phase} swallows a failed rename for {sorted(swallowed) if swallowed else 'any errno'}: an entry that could not be moved (e.g. ENOTDIR: the destination cannot be reached) is skipped, apply() continues and commits the metadata — the tree is left in a mixed state instead of being rolled back")
            ctx.require(len(hs) >= 1, f"{wherep}: no TransformRenameFailed handler found")
        # ---- R1b: removed contents are always parked through the journal ----------
        fnr = repo.func(rel, f"{cls}._apply_removals")
        gr = build_cfg(fnr)
        wherer = f"{rel}:{cls}._apply_removals"
        tests = [n.id for n in gr.nodes if n.kind == "test" and isinstance(n.ast, ast.Compare) and "_removed_contents" in norm(n.ast) and isinstance(n.ast.ops[0], ast.In)]
        pd = calling(gr, attr="pre_delete", recv="mover")
        ok = bool(tests) and bool(pd)
        w = None
        for t in tests:
            starts = [b for (b, l) in gr.succ[t] if l == "T" and b not in pd]
            loop = gr.loops_of(t)
            ends = ([loop[-1]] if loop else []) + [gr.exit]
            got = gr.reach(starts, avoid=pd, include_src=True)
            bad = [e for e in ends if e in got]
            if bad:
                ok = False
                w = gr.path(starts, bad, avoid=pd)
        ctx.check("R1b-removed-content-parked", wherer, ok, "every entry whose content is removed is moved aside with mover.pre_delete (journalled) on every path", message="content scheduled for removal can be left in place (later overwritten outside the journal): a failure afterwards cannot restore it", witness=gr.show_path(w) if w else None)
        # ---- R3 / R4 on apply ---------------------------------------------------
        from ..astutil import bind_roles, canonicalise

        fn = repo.func(rel, f"{cls}.apply")
        where = f"{rel}:{cls}.apply"
        fn = canonicalise(fn, bind_roles(fn, {"mover": ("assign", lambda t, n: "_FileMover()" in t)}, where))
        g = build_cfg(fn, fallible=fallible)
        ctx.fact(len(g.nodes))
        p1 = need(where, calling(g, attr="_apply_removals", recv="self"), "_apply_removals(mover)")
        p2 = need(where, calling(g, attr="_apply_insertions", recv="self"), "_apply_insertions(mover)")
        rb = calling(g, attr="rollback", recv="mover")
        handlers_of = lambda nid: [b for (b, l) in g.succ[nid] if l == "X" and g.nodes[b].kind == "handler"]
        for ph, nm in ((p1, "_apply_removals"), (p2, "_apply_insertions")):
            hs = [h for n in ph for h in handlers_of(n)]
            escapes = [b for n in ph for (b, l) in g.succ[n] if l == "X" and g.nodes[b].kind != "handler"]
            ok = bool(hs) and not escapes
            ctx.check("R3-phases-guarded", where, ok, f"{nm}: every failure is caught by a handler catching at least Exception", message=f"a failure in {nm} can propagate without passing the rollback handler (handler too narrow or phase outside the try)")
            if hs:
                broad = all(g.nodes[h].ast.type is None or "BaseException" in norm(g.nodes[h].ast.type) for h in hs)
                ctx.check("R3-phases-guarded", where, broad, f"{nm}: the rollback handler also catches KeyboardInterrupt / SystemExit (bare except or BaseException)", construct="; ".join(norm(g.nodes[h].ast.type) if g.nodes[h].ast.type is not None else "bare" for h in hs), message=f"the rollback handler around {nm} catches {[norm(g.nodes[h].ast.type) for h in hs if g.nodes[h].ast.type is not None]} only: a Ctrl-C (KeyboardInterrupt) or SystemExit between the first and the last rename leaves the tree half-moved, and the caller's finalize() then deletes the user's files parked in limbo")
                ok2, w = g.always_after(hs, rb)
                ok3 = g.exit not in g.reach(hs)
                ctx.check("R3-rollback-on-failure", where, bool(rb) and ok2 and ok3, f"{nm}: the handler calls mover.rollback() and re-raises on every path", message=f"a failure in {nm} is not rolled back or is swallowed", witness=g.show_path(w) if w else None)
        ad = need(where, calling(g, attr="apply_deletions", recv="mover"), "mover.apply_deletions()")
        hs_all = [n.id for n in g.nodes if n.kind == "handler"]
        ctx.check("R3-deletions-only-on-success", where, not (set(ad) & g.reach(hs_all)), "apply_deletions() is never reached from the failure handler")
        k1_before(ctx, "R3-deletions-only-on-success", where, g, p2, ad, "apply_deletions() only after both phases ran")
        k1_before(ctx, "R3-phase-order", where, g, p1, p2, "removals before insertions")
        # R4: from the normal completion of the last phase, every exit passes the metadata update
        upd = need(where, calling(g, attr=meta, recv="self._tree"), f"self._tree.{meta}(...)")
        starts = [b for n in p2 for (b, l) in g.succ[n] if l != "X"]
        got = g.reach(starts, avoid=upd, include_src=True)
        bad_exits = [e for e in (g.exit, g.raise_exit) if e in got]
        w = g.path(starts, bad_exits, avoid=upd) if bad_exits else None
        ctx.check("R4", where, not bad_exits, f"after the rename phases succeeded every continuation (including a failing file-system operation) reaches self._tree.{meta}()", construct="mover.apply_deletions()" if bad_exits else "", message="a file-system failure after the commit point (discarding replaced content) skips the metadata update: files are in the new layout, metadata describes the old one", witness=g.show_path(w) if w else None)
    # ---- fourth round: the GC safety net is disarmed before finalize() can fail; parked names are the transform ids ------
    for rel_ in (BT, GT):
        ffz, gfz, wfz = fn_cfg(ctx, rel_, "DiskTreeTransform.finalize")
        det = need(wfz, calling(gfz, attr="detach", recv="self._cleanup_finalizer"), "self._cleanup_finalizer.detach()")
        ctx.check("finalizer-disarmed-first", wfz, gfz.raise_exit not in gfz.reach([gfz.entry], avoid=set(det), include_src=True), "no exception leaves finalize() before the weakref finalizer was detached", message="finalize() can raise (ImmortalLimbo / ImmortalPendingDeletion) with the GC safety net still armed: the finalizer removes limbo/ and pending-deletion/ by path, and those paths are shared by every later transform of the tree — when the garbage collector runs it during a later transform, that transform's parked files are deleted and its rollback cannot restore them")
        fn_rm = None
        for q_ in ("InventoryTreeTransform._apply_removals", "GitTreeTransform._apply_removals"):
            if repo.has(rel_, q_):
                fn_rm = (q_, repo.func(rel_, q_))
        ctx.require(fn_rm is not None, f"{rel_}: _apply_removals not found")
        q_, f_ = fn_rm
        joins = [c for c in calls_in(f_) if norm(c.func) in ("os.path.join", "osutils.pathjoin", "pathjoin") and c.args and norm(c.args[0]) == "self._deletiondir"]
        ctx.require(bool(joins), f"{rel_}:{q_}: os.path.join(self._deletiondir, …) not found")
        ids = {n_.left.id for n_ in ast.walk(f_) if isinstance(n_, ast.Compare) and isinstance(n_.left, ast.Name) and any(isinstance(o, ast.In) for o in n_.ops) and any("_removed_contents" in norm(cm) for cm in n_.comparators)}
        for c in joins:
            okj = len(c.args) == 2 and isinstance(c.args[1], ast.Name) and c.args[1].id in ids
            ctx.check("parked-name-is-transform-id", f"{rel_}:{q_}", okj, "a file parked in pending-deletion/ is named by its transform id (unique per entry)", construct=norm(c)[:90], message=f"{q_} parks removed files under a name computed from something other than the transform id ({norm(c)[:80]}): two entries can map to the same parked name, the second rename replaces the first, and a rollback after a later failure cannot bring the first file back")


_OLD_B = "            except BaseException:\n                mover.rollback()\n                raise\n"

MUTANTS = [
    Mutant("rollback handler narrowed to Exception (bzr)", BT, _OLD_B, "            except Exception:\n                mover.rollback()\n                raise\n", expect="R3-phases-guarded"),
    Mutant("ENOTDIR tolerated when moving entries into place", BT, "                        # We may be renaming a dangling inventory id\n                        if e.errno != errno.ENOENT:\n", "                        # We may be renaming a dangling inventory id\n                        if e.errno not in (errno.ENOENT, errno.ENOTDIR):\n", expect="R1c-rename-failure-aborts"),
    Mutant("direct os.rename in _apply_insertions (bzr)", BT, "                        mover.rename(self._limbo_name(trans_id), full_path)\n", "                        os.rename(self._limbo_name(trans_id), full_path)\n", expect="R1-journalled-only"),
    Mutant("direct delete in _apply_removals (git)", GT, "                    mover.pre_delete(full_path, delete_path)\n", "                    osutils.delete_any(full_path)\n", expect="R1-journalled-only"),
    Mutant("rollback without reversed", TR, "        for from_, to in reversed(self.past_renames):", "        for from_, to in self.past_renames:", expect="R2-rollback-reversed"),
    Mutant("journal before os.rename", TR, "        try:\n            os.rename(from_, to)\n        except OSError as e:\n            if e.errno in (errno.EEXIST, errno.ENOTEMPTY):", "        self.past_renames.append((from_, to))\n        try:\n            os.rename(from_, to)\n        except OSError as e:\n            if e.errno in (errno.EEXIST, errno.ENOTEMPTY):", expect="R2-journal-after-rename"),
    Mutant("handler narrowed to OSError (bzr)", BT, _OLD_B, "            except OSError:\n                mover.rollback()\n                raise\n", expect="R3-phases-guarded"),
    Mutant("handler narrowed to OSError (git)", GT, _OLD_B, "            except OSError:\n                mover.rollback()\n                raise\n", expect="R3-phases-guarded"),
    Mutant("rollback dropped (git)", GT, _OLD_B, "            except BaseException:\n                raise\n", expect="R3-rollback-on-failure"),
    Mutant("handler swallows the error (bzr)", BT, _OLD_B, "            except BaseException:\n                mover.rollback()\n                return None\n", expect="R3-rollback-on-failure"),
    Mutant("pre_delete records before renaming", TR, "        self.rename(from_, to)\n        self.pending_deletions.append(to)\n", "        self.pending_deletions.append(to)\n        self.rename(from_, to)\n", expect="R2-predelete-renames-first"),
    Mutant("neutral: mover renamed", GT, "            mover = _FileMover() if _mover is None else _mover\n", "            mover = _mover if _mover is not None else _FileMover()\n", neutral=True),
]
