"""C21 — pull and push never silently drop history: guarded tip updates."""

import ast

from ..absint import Interp, Obj, Opaque, Raised
from ..astutil import const_value, call_name, call_attr, call_recv, calls_in, norm, walk_own
from ..cfg import build_cfg
from ..rules import calling, fn_cfg, k1_before, k2_unreachable, need
from ..selftest import Mutant

ID = "C21"
TECHNIQUE = "guarded dominance on the CFG (K2), 3-row relation table by abstract interpretation (K8), who-may-call for the tip write (K4) (ast)"
FLOOR = 17
BR = "breezy/branch.py"
BB = "breezy/bzr/branch.py"
EXPLANATION = """
R1 (K2) breezy/branch.py:GenericInterBranch._update_revisions: when `overwrite` is falsy, target.set_last_revision_info is
   dominated by the call to _check_if_descendant_or_diverged (no path moves the tip unclassified), the arguments are
   (stop_revision, <target tip read before the fetch>), and a truthy result returns without touching the tip.
R2 (K8, exhaustive over the 3 possible head sets + the impossible one) Branch._revision_relations and
   _check_if_descendant_or_diverged are evaluated abstractly: heads {b} -> True (tip unchanged), {a,b} -> DivergedBranches
   raised, {a} -> False (proceed), anything else -> AssertionError; every label returned by the former is handled by the
   latter.
R3 (K4+K2) breezy/bzr/branch.py: _write_last_revision_info is called only from BzrBranch.set_last_revision_info (plus the
   tabled format converter); there, whenever get_append_revisions_only() is truthy, it is dominated by
   _check_history_violation; that function's only non-raising exits are "null tip" and "old tip found in the left-hand
   ancestry of the new one"; Branch.get_append_revisions_only reads the option from the branch's full configuration stack.
R4 (K1) Branch.generate_revision_history raises DivergedBranches before set_last_revision_info when last_rev is given and
   is not an ancestor of the new tip.
R8 (K7) every InterBranch implementation in branch.py and git/branch.py substitutes the full aspect set only under
   `overwrite is True`, and no push/pull entry point lets a divergence check hang on the bare truth value of overwrite.
R9 (fourth round) every ref-update callback (nested function taking the advertised refs) passes remote_divergence an old value taken from
   that parameter, not from the enclosing scope.
R10 RemoteBranch.generate_revision_history allows divergence on the smart path only when last_rev is None; R11 every fetch_refs with an
   overwrite flag reads it (one known finding, one tabled exception); R12 no function plants a tip into another branch object's cache
   (known finding).
Does not decide: that revno equals the length of the left-hand history for all DAGs (graph arithmetic).
"""
ASSUMPTIONS = ["graph.heads() returns the heads of the given revisions (vcsgraph)"]


def run(ctx):
    repo = ctx.repo
    # ---- R1 -----------------------------------------------------------------
    fn, g, where = fn_cfg(ctx, BR, "GenericInterBranch._update_revisions")
    setl = need(where, calling(g, attr="set_last_revision_info", recv="self.target"), "self.target.set_last_revision_info")
    chk = need(where, calling(g, attr="_check_if_descendant_or_diverged"), "_check_if_descendant_or_diverged(...)")
    g_no = g.assume({"overwrite": False})
    ok, w = g_no.always_before(chk, setl)
    ctx.check("R1-classified-before-tip-move", where, ok, "without overwrite every path to set_last_revision_info passes _check_if_descendant_or_diverged", message="without overwrite the target tip can be moved although the relation between the two tips was never classified", witness=g.show_path(w) if w else None)
    chk_tests = [n.id for n in g.nodes if n.kind == "test" and any(call_attr(c) == "_check_if_descendant_or_diverged" for c in calls_in(n.ast))]
    ctx.check("R1-classified-before-tip-move", where, chk_tests == chk and all(not isinstance(g.nodes[t].ast, ast.UnaryOp) for t in chk_tests), "the classification result is the branch condition itself")
    for t in chk_tests:
        starts = [b for (b, l) in g.succ[t] if l == "T"]
        r = g.reach(starts, include_src=True)
        ctx.check("R1-contained-means-unchanged", where, not (set(setl) & r), "when the target already contains the requested revision the tip is left unchanged")
    call = [c for n in chk for c in g.nodes[n].calls() if call_attr(c) == "_check_if_descendant_or_diverged"][0]
    args = [norm(a) for a in call.args]
    last_src = {norm(s.targets[0]): norm(s.value) for s in walk_own(fn) if isinstance(s, ast.Assign) and len(s.targets) == 1}
    ok = len(args) >= 2 and args[0] == "stop_revision" and last_src.get(args[1], "") == "self.target.last_revision()"
    ctx.check("R1-classifies-right-pair", where, ok, "the pair classified is (requested revision, target tip)", construct=str(args[:2]), message=f"_check_if_descendant_or_diverged is called with {args[:2]}, not (stop_revision, target tip)")
    tip_reads = [n.id for n in g.nodes if n.kind == "stmt" and isinstance(n.ast, ast.Assign) and norm(n.ast.value) == "self.target.last_revision()"]
    fetch = need(where, calling(g, attr="fetch", recv="self"), "self.fetch(...)")
    k1_before(ctx, "R1-fetch-before-tip-move", where, g, fetch, setl, "revisions are fetched before the tip names them")

    # ---- R2 -----------------------------------------------------------------
    f_rel = repo.func(BR, "Branch._revision_relations")
    f_chk = repo.func(BR, "Branch._check_if_descendant_or_diverged")
    wh = f"{BR}:Branch._check_if_descendant_or_diverged"
    cases = {"{b}": ({"B"}, True), "{a,b}": ({"A", "B"}, "raise:DivergedBranches"), "{a}": ({"A"}, False), "{}": (set(), "raise:AssertionError"), "{c}": ({"C"}, "raise:AssertionError")}
    labels_returned = {n.value.value for n in walk_own(f_rel) if isinstance(n, ast.Return) and isinstance(n.value, ast.Constant)}
    labels_handled = {c.value for n in walk_own(f_chk) if isinstance(n, ast.Compare) for c in n.comparators if isinstance(c, ast.Constant)}
    ctx.check("R2-labels-agree", wh, labels_returned and labels_returned <= labels_handled, f"labels returned {sorted(labels_returned)} are all handled {sorted(labels_handled)}", construct=str(sorted(labels_returned - labels_handled)))
    for name, (heads, want) in cases.items():
        graph = Obj("graph")

        def hook(interp, call, nm, ev_args, env, heads=heads):
            if nm == "graph.heads":
                return set(heads)
            if nm == "self._revision_relations":
                a, kw = ev_args()
                return interp.call(f_rel, dict(zip(["self", "revision_a", "revision_b", "graph"], [env["self"]] + a)))
            return NotImplemented

        it = Interp(call_hook=hook, name_hook=lambda n: Opaque(n) if n == "errors" else NotImplemented)
        try:
            res = it.call(f_chk, {"self": Obj("branch"), "revision_a": "A", "revision_b": "B", "graph": graph, "other_branch": Opaque("other")})
        except Raised as r:
            res = "raise:" + r.name.split(".")[-1]
        ctx.check("R2-relation-table", wh, res == want, f"heads({{a,b}}) = {name} -> {want}", construct=f"heads={name} -> {res}", message=f"for heads = {name} the classification gives {res}, expected {want} (b = current target tip, a = requested revision)")
    ctx.sample({"relation_table": {k: str(v[1]) for k, v in cases.items()}})

    # ---- R3 -----------------------------------------------------------------
    callers = []
    for rel in repo.python_files():
        if "_write_last_revision_info" in repo.text(rel):
            for q, f in repo.module(rel).functions().items():
                if any(call_attr(c) == "_write_last_revision_info" for c in calls_in(f)):
                    callers.append(f"{rel}:{q}")
    allowed = {f"{BB}:BzrBranch.set_last_revision_info", f"{BB}:Converter7to8.convert", f"{BB}:Converter6to7.convert", f"{BB}:Converter5to6.convert"}
    ctx.check("R3-single-tip-writer", BB, set(callers) <= allowed and f"{BB}:BzrBranch.set_last_revision_info" in callers, "_write_last_revision_info is called only from BzrBranch.set_last_revision_info (and format converters)", construct=str(sorted(set(callers) - allowed)), message=f"the on-disk tip is written from an unguarded site: {sorted(set(callers) - allowed)}")
    fn, g, where = fn_cfg(ctx, BB, "BzrBranch.set_last_revision_info")
    wr = need(where, calling(g, attr="_write_last_revision_info", recv="self"), "_write_last_revision_info")
    hv = need(where, calling(g, attr="_check_history_violation", recv="self"), "_check_history_violation")
    ga = g.assume({"self.get_append_revisions_only()": True})
    ok, w = ga.always_before(hv, wr)
    ctx.check("R3-append-only-enforced", where, ok, "with append_revisions_only set the tip is written only after _check_history_violation", message="append-only branches can have their tip rewritten without the history check", witness=g.show_path(w) if w else None)
    arg_ok = all(norm(c.args[0]) == "revision_id" for i in hv for c in g.nodes[i].calls() if call_attr(c) == "_check_history_violation")
    ctx.check("R3-append-only-enforced", where, arg_ok, "the history check is applied to the new tip")
    # every concrete BzrBranch format class that supports append-only must resolve the check (BzrBranch8 defines it)
    r = repo.resolve_method(BB, "BzrBranch8", "_check_history_violation")
    ctx.require(r is not None, "_check_history_violation not found in BzrBranch8's MRO")
    for sub in ("BzrBranch7", "BzrBranch6"):
        rs = repo.resolve_method(BB, sub, "_check_history_violation")
        ctx.check("R3-violation-resolves", f"{BB}:{sub}", rs is not None and rs[2] is r[2], f"{sub} resolves _check_history_violation to the checked implementation")
    gv = build_cfg(r[2])
    whv = f"{r[0]}:{r[1]}._check_history_violation"
    rets = [n for n in gv.nodes if n.kind == "stmt" and isinstance(n.ast, ast.Return)]
    raises = [n.id for n in gv.nodes if n.kind == "stmt" and isinstance(n.ast, ast.Raise) and "AppendRevisionsOnlyViolation" in norm(n.ast)]
    # every return is control dependent on is_null(last) or lh_ancestor == last_revision
    ok = bool(raises)
    for rn in rets:
        cut = set()
        for t in gv.nodes:
            if t.kind == "test" and ("is_null" in norm(t.ast) or (isinstance(t.ast, ast.Compare) and "last_revision" in norm(t.ast))):
                cut |= {(t.id, b, l) for (b, l) in gv.succ[t.id] if l == "T"}
        if rn.id in gv.copy_without(cut).reachable_from_entry():
            ok = False
    fall = gv.exit in gv.reach([gv.entry], avoid=[n.id for n in rets], include_src=True)
    ctx.check("R3-violation-raises", whv, ok and not fall and len(rets) == 2, "the only non-raising exits are 'null tip' and 'old tip found in the left-hand ancestry'; everything else raises AppendRevisionsOnlyViolation", message="_check_history_violation can return although the old tip is not in the new tip's left-hand history")
    loops = [n for n in walk_own(r[2]) if isinstance(n, ast.For)]
    ctx.check("R3-violation-raises", whv, len(loops) == 1 and "iter_lefthand_ancestry(revision_id)" in norm(loops[0].iter), "the ancestry walked is the left-hand ancestry of the new tip")
    fga = repo.func(BR, "Branch.get_append_revisions_only")
    rets = [norm(n.value) for n in walk_own(fga) if isinstance(n, ast.Return)]
    ctx.check("R3-option-from-full-stack", f"{BR}:Branch.get_append_revisions_only", any(r_ == "self.get_config_stack().get('append_revisions_only')" for r_ in rets), "append_revisions_only is read from the branch's full configuration stack", construct=str(rets), message="append_revisions_only is no longer read from get_config_stack(): settings outside branch.conf would be ignored by the enforcement")

    # ---- R4 -----------------------------------------------------------------
    fn, g, where = fn_cfg(ctx, BR, "Branch.generate_revision_history", roles={"graph": ("assign", "self.repository.get_graph()")})
    setl = need(where, calling(g, attr="set_last_revision_info", recv="self"), "set_last_revision_info")
    k2_unreachable(ctx, "R4-generate-checks-ancestry", where, g, {"last_rev is not None": True, "graph.is_ancestor(last_rev, revision_id)": False}, setl, "generate_revision_history refuses (DivergedBranches) when the previous tip is not merged into the new one")
    # ---- R6: only the 'history' aspect of overwrite switches the divergence check off ---------------------------------
    mod_b = repo.module(BR)
    n_sites = 0
    for q_, f_ in mod_b.functions().items():
        if not q_.startswith("GenericInterBranch."):
            continue
        for c in calls_in(f_):
            if call_attr(c) == "_update_revisions" and call_recv(c) == "self":
                n_sites += 1
                ov = [k.value for k in c.keywords if k.arg == "overwrite"] + list(c.args[1:2])
                ok_ = len(ov) == 1 and (isinstance(ov[0], ast.Constant) and isinstance(ov[0].value, bool) or (isinstance(ov[0], ast.Compare) and len(ov[0].ops) == 1 and isinstance(ov[0].ops[0], ast.In) and isinstance(ov[0].left, ast.Constant) and ov[0].left.value == "history"))
                ctx.check("R6-overwrite-history-only", f"{BR}:{q_}", ok_, f"{q_} hands _update_revisions overwrite=('history' in <aspects>) (or a literal bool)", construct=norm(c)[:90], message=f"`{norm(c)[:90]}` passes the whole set of overwrite aspects: any non-empty set (e.g. {{'tags'}} from --overwrite-tags) then skips the divergence check and the target tip is replaced on diverged branches")
    ctx.require(n_sites >= 2, f"{BR}: only {n_sites} _update_revisions call sites found")
    fur = repo.func(BR, "GenericInterBranch._update_revisions")
    gur = build_cfg(fur)
    dv = need(f"{BR}:GenericInterBranch._update_revisions", calling(gur, attr="_check_if_descendant_or_diverged"), "_check_if_descendant_or_diverged(...)")
    upd = calling(gur, attr="set_last_revision_info") + calling(gur, attr="generate_revision_history") + calling(gur, attr="_set_last_revision_info")
    r_ = gur.assume({"overwrite": False, "not overwrite": True}).reach([gur.entry], avoid=set(dv), include_src=True)
    ctx.check("R6-overwrite-history-only", f"{BR}:GenericInterBranch._update_revisions", bool(upd) and not (set(upd) & r_), "without overwrite the tip is updated only after the descendant-or-diverged check", message="_update_revisions can move the tip without the divergence check although overwrite is false")
    # ---- R7: a push to a bound branch updates the master first (shared with C23-R6) ----------------------------------------
    fnq, gq, whereq = fn_cfg(ctx, BR, "GenericInterBranch.push", roles={"master_branch": ("assign", "~self\\.target\\.get_master_branch\\(.*\\)"), "master_inter": ("assign", "InterBranch.get(self.source, {master_branch})")})
    mq = need(whereq, calling(gq, attr="_basic_push", recv="master_inter"), "master_inter._basic_push(...)")
    bound_local = [i for i in calling(gq, attr="_basic_push", recv="self") if i in gq.reach(calling(gq, attr="get_master_branch"))]
    ok_, w_ = gq.always_before(mq, bound_local) if bound_local else (False, None)
    ctx.check("R7-bound-push-master-first", whereq, ok_, "pushing into a bound branch moves the master first: if the master refuses (DivergedBranches) the bound branch's tip is untouched", message="the bound branch's own tip is pushed before its master: when the master rejects the revision as diverged the push fails but the bound tip has already moved", witness=gq.show_path(w_) if w_ else None)
    # ---- R8: every InterBranch implementation reads the overwrite aspects the same way -----------------------------------
    # `overwrite` arrives as True, a false value, or a collection of aspects (the commands pass lists: ["tags"] for
    # --overwrite-tags).  (a) The full aspect set is substituted only under the identity test `overwrite is True`;
    # (b) no divergence decision in a push/pull entry point hangs on the bare truth value of `overwrite`.
    GB = "breezy/git/branch.py"
    n_norm = 0
    for rel_ in (BR, GB):
        for q_, f_ in repo.module(rel_).functions().items():
            if "overwrite" not in [a.arg for a in f_.args.args + f_.args.kwonlyargs]:
                continue
            for n in walk_own(f_):
                if isinstance(n, ast.Assign) and norm(n.targets[0]) == "overwrite":
                    full = [x for x in ast.walk(n.value) if isinstance(x, (ast.Set, ast.List, ast.Tuple)) and any(isinstance(e, ast.Constant) and e.value == "history" for e in x.elts)]
                    if not full:
                        continue
                    n_norm += 1
                    conds = [i_ for i_ in walk_own(f_) if isinstance(i_, ast.If) and any(x is n for s_ in i_.body for x in ast.walk(s_))]
                    ok_c = bool(conds) and norm(conds[-1].test) in ("overwrite is True", "overwrite == True") and not isinstance(n.value, ast.IfExp)
                    ctx.check("R8-overwrite-aspects-uniform", f"{rel_}:{q_}", ok_c, f"{q_}: the full aspect set is substituted only under `overwrite is True`", construct=f"L{n.lineno}:{norm(n)[:60]} under {[norm(c_.test)[:40] for c_ in conds][-1:]}", message=f"{q_} turns `overwrite` into the full aspect set under {[norm(c_.test)[:50] for c_ in conds][-1:] or 'no test'} instead of `overwrite is True`: a collection that names other aspects only (['tags'], what --overwrite-tags passes) is expanded to include 'history' and the divergence check is skipped — the target's own revisions are dropped silently")
            if q_.split(".")[-1] in ("push", "pull", "_basic_push", "_pull", "lossy_push"):
                for n in ast.walk(f_):
                    if isinstance(n, ast.BoolOp) and isinstance(n.op, ast.And) and any(isinstance(v, ast.UnaryOp) and isinstance(v.op, ast.Not) and norm(v.operand) == "overwrite" for v in n.values) and any(isinstance(c, ast.Call) and "diverg" in norm(c.func).lower() for v in n.values for c in ast.walk(v)):
                        ctx.check("R8-overwrite-aspects-uniform", f"{rel_}:{q_}", False, "the divergence check depends on the 'history' aspect", construct=f"L{n.lineno}:{norm(n)[:70]}", message=f"{q_} skips its divergence check whenever `overwrite` is merely true-ish (`{norm(n)[:60]}`): --overwrite-tags (overwrite=['tags']) replaces diverged history on the target without any error")
    ctx.require(n_norm >= 4, f"only {n_norm} overwrite normalisations found in {BR} / {GB} (hand-confirmed: >= 6)")
    # R5 siblings: other Branch implementations overriding set_last_revision_info (information)
    sibs = []
    for rel in ("breezy/git/branch.py", "breezy/bzr/remote.py", "breezy/bzr/fullhistory.py", "breezy/git/remote.py"):
        if repo.exists(rel):
            for q, f in repo.module(rel).functions().items():
                if q.endswith(".set_last_revision_info"):
                    sibs.append(f"{rel}:{q}")
    ctx.extra["set_last_revision_info_overrides"] = sibs
    # ---- R9: a ref-update callback judges divergence against the refs the server sent in this conversation --------------
    n_cb = 0
    for rel_ in ("breezy/git/branch.py", "breezy/git/interrepo.py", "breezy/git/remote.py"):
        for outer_q, outer in repo.module(rel_).functions().items():
            for cb in (d for d in ast.walk(outer) if isinstance(d, ast.FunctionDef) and d is not outer and d.args.args):
                divs = [c for c in ast.walk(cb) if isinstance(c, ast.Call) and (call_name(c) or norm(c.func)).split(".")[-1] == "remote_divergence" and c.args]
                if not divs:
                    continue
                refs_param = cb.args.args[0].arg
                for c in divs:
                    n_cb += 1
                    a0 = c.args[0]
                    local_src = [a.value for a in ast.walk(cb) if isinstance(a, ast.Assign) and isinstance(a0, ast.Name) and any(norm(t) == a0.id for t in a.targets)]
                    exprs = local_src if isinstance(a0, ast.Name) else [a0]
                    from_param = bool(exprs) and all(any(isinstance(n_, ast.Name) and n_.id == refs_param for n_ in ast.walk(e)) for e in exprs)
                    ctx.check("R9-divergence-against-advertised-refs", f"{rel_}:{outer_q}.{cb.name}", from_param, f"the old value given to remote_divergence comes from `{refs_param}`, the refs the server advertised in this conversation", construct=norm(c)[:90], message=f"{outer_q}.{cb.name} compares the new tip with `{norm(a0)}`, which is not taken from `{refs_param}` (the refs advertised by the server in this send-pack conversation) but from the enclosing scope — a ref listing cached earlier: when somebody else advanced the remote branch in between, the divergence is not seen and the remote tip is replaced without --overwrite")
    ctx.require(n_cb >= 4, f"only {n_cb} ref-update callbacks with a divergence test found (hand-confirmed: 4)")
    # ---- R10: every generate_revision_history honours last_rev ------------------------------------------------------------
    RMB = "breezy/bzr/remote.py"
    fgr = repo.func(RMB, "RemoteBranch.generate_revision_history")
    wgr = f"{RMB}:RemoteBranch.generate_revision_history"
    dcalls = [c for c in calls_in(fgr) if call_attr(c) == "_set_last_revision_descendant"]
    ctx.require(bool(dcalls), f"{wgr}: _set_last_revision_descendant(...) not found")
    lr = [a.arg for a in fgr.args.args][2] if len(fgr.args.args) > 2 else "last_rev"
    for c in dcalls:
        kw = [k.value for k in c.keywords if k.arg == "allow_diverged"] + list(c.args[2:3])
        honours = bool(kw) and (const_value(kw[0], 1) is False or any(isinstance(n_, ast.Name) and n_.id == lr for n_ in ast.walk(kw[0])))
        ctx.check("R10-last-rev-honoured", wgr, honours, f"the smart path allows divergence only when no `{lr}` was given", construct=norm(c)[:110], message=f"RemoteBranch.generate_revision_history asks the server to set the tip with divergence allowed whatever `{lr}` is: a caller that passes the previous tip (the git -> bzr push does) gets no DivergedBranches over a smart server URL, the remote tip is replaced without --overwrite; the local branch refuses")
    # ---- R11: fetch_refs implementations read the overwrite flag they are given -------------------------------------------
    #: confirmed by reading: the local git -> local git branch layer moves heads through _update_tip, which judges divergence itself
    OVERWRITE_ELSEWHERE = {"InterGitGitRepository.fetch_refs"}
    n_fr = 0
    for q_, f_ in repo.module("breezy/git/interrepo.py").functions().items():
        if not q_.endswith(".fetch_refs") or "overwrite" not in [a.arg for a in f_.args.args + f_.args.kwonlyargs]:
            continue
        if any(isinstance(st, ast.Raise) and "NotImplementedError" in norm(st) for st in f_.body):
            continue  # the abstract declaration of the interface
        n_fr += 1
        reads = any(isinstance(n_, ast.Name) and n_.id == "overwrite" for st in f_.body for n_ in ast.walk(st))
        if q_ in OVERWRITE_ELSEWHERE and not reads:
            ctx.info("R11-overwrite-flag-read", f"breezy/git/interrepo.py:{q_}", "tabled exception: divergence is judged by the branch layer (_update_tip)")
            continue
        if reads:
            ctx.check("R11-overwrite-flag-read", f"breezy/git/interrepo.py:{q_}", True, f"{q_} reads its overwrite flag")
        else:
            ctx.violation("R11-overwrite-flag-read", f"breezy/git/interrepo.py:{q_}", "parameter `overwrite` is never read", f"{q_} takes an overwrite flag and never looks at it, and nothing in it compares the target's old ref with the new one: pushing (or pulling, or dpushing) diverged bzr history into a local git branch replaces the git tip without --overwrite, and a target that is ahead is moved backwards")
    ctx.require(n_fr >= 3, f"only {n_fr} fetch_refs implementations with an overwrite flag found")
    # ---- R12: nobody plants a tip in a branch object's cache from outside ----------------------------------------------------
    planted = []
    for q_, f_ in repo.module(RMB).functions().items():
        for a in walk_own(f_):
            if isinstance(a, ast.Assign) and any(isinstance(t, ast.Attribute) and t.attr == "_last_revision_info_cache" and norm(t.value) not in ("self", "self._real_branch") for t in a.targets) and norm(a.value) != "None":
                planted.append((q_, a))
    if planted:
        q_, a = planted[0]
        ctx.violation("R12-tip-cache-not-planted", f"{RMB}:{q_}", norm(a)[:80], f"{q_} writes a tip into the cache of a branch object that is not locked ({norm(a)[:60]}): lock_write() does not drop it, so a push through the object returned by create_branch() believes the remote branch is still empty and replaces whatever another client pushed meanwhile, without --overwrite")
    else:
        ctx.check("R12-tip-cache-not-planted", RMB, True, "the tip cache of a RemoteBranch is written only by the branch's own methods")
    # ---- R13: what reaches fetch_refs as `overwrite` says whether *history* may be overwritten ----------------------------
    n_fc = 0
    for q_, f_ in repo.module("breezy/git/branch.py").functions().items():
        ps_ = [a.arg for a in f_.args.args + f_.args.kwonlyargs]
        if "overwrite" not in ps_:
            continue
        for c in (n_ for n_ in ast.walk(f_) if isinstance(n_, ast.Call) and call_attr(n_) == "fetch_refs"):
            kw = [k.value for k in c.keywords if k.arg == "overwrite"]
            if not kw:
                continue
            n_fc += 1
            raw = isinstance(kw[0], ast.Name) and kw[0].id == "overwrite" and not any(isinstance(a, ast.Assign) and norm(a.targets[0]) == "overwrite" for a in walk_own(f_))
            ctx.check("R13-history-aspect-passed-down", f"breezy/git/branch.py:{q_}", not raw, "fetch_refs is told whether history may be overwritten (a normalised value), not the caller's raw overwrite argument", construct=norm(c)[:100], message=f"{q_} passes its raw `overwrite` argument on to fetch_refs, where it is tested by truthiness: overwrite=['tags'] (`push --overwrite-tags`) switches the history divergence test off and a diverged tip is replaced")
    ctx.require(n_fc >= 1, "no fetch_refs(..., overwrite=…) call found in breezy/git/branch.py")


MUTANTS = [
    Mutant("raw overwrite handed to fetch_refs again (fix a75e10b reverted)", "breezy/git/branch.py", "                    update_refs, lossy=lossy, overwrite=overwrite_history\n", "                    update_refs, lossy=lossy, overwrite=overwrite\n", expect="R13-history-aspect-passed-down"),
    Mutant("remote generate_revision_history always allows divergence (fix 30e5099 reverted)", "breezy/bzr/remote.py", "                        allow_diverged=last_rev is None,\n", "                        allow_diverged=True,\n", expect="R10-last-rev-honoured"),
    Mutant("remote git push judges divergence by the cached ref", "breezy/git/remote.py", "            old_sha = remote_refs.get(actual_refname)\n            if not overwrite and remote_divergence(", "            if not overwrite and remote_divergence(", expect="R9-divergence-against-advertised-refs"),
    Mutant("git pull expands any non-set overwrite to the full aspect set", "breezy/git/branch.py", "        if local:\n            raise errors.LocalRequiresBoundBranch()\n        if overwrite is True:\n            overwrite = {\"history\", \"tags\"}\n        elif not overwrite:\n            overwrite = set()\n", "        if local:\n            raise errors.LocalRequiresBoundBranch()\n        if not isinstance(overwrite, (set, frozenset)):\n            overwrite = {\"history\", \"tags\"} if overwrite else set()\n", expect="R8-overwrite-aspects-uniform"),
    Mutant("remote git push decides divergence on the truth value of overwrite", "breezy/git/branch.py", "            if \"history\" not in overwrite and remote_divergence(", "            if not overwrite and remote_divergence(", expect="R8-overwrite-aspects-uniform"),
    Mutant("push hands the whole aspect set to _update_revisions", BR, "            self._update_revisions(\n                stop_revision, overwrite=(\"history\" in overwrite), graph=graph\n            )\n        if self.source._push_should_merge_tags():", "            self._update_revisions(stop_revision, overwrite=overwrite, graph=graph)\n        if self.source._push_should_merge_tags():", expect="R6-overwrite-history-only"),
    Mutant("classification skipped by a shortcut", BR, "            if not overwrite:\n                if graph is None:\n                    graph = self.target.repository.get_graph()\n                if self.target._check_if_descendant_or_diverged(", "            if not overwrite and stop_revno is None:\n                if graph is None:\n                    graph = self.target.repository.get_graph()\n                if self.target._check_if_descendant_or_diverged(", expect="R1-classified-before-tip-move"),
    Mutant("arguments swapped", BR, "                if self.target._check_if_descendant_or_diverged(\n                    stop_revision, last_rev, graph, self.source\n                ):", "                if self.target._check_if_descendant_or_diverged(\n                    last_rev, stop_revision, graph, self.source\n                ):", expect="R1-classifies-right-pair"),
    Mutant("labels for {a} and {b} swapped", BR, "        if heads == {revision_b}:\n            return \"b_descends_from_a\"", "        if heads == {revision_a}:\n            return \"b_descends_from_a\"", expect="R2-relation-table"),
    Mutant("diverged treated as contained", BR, "        elif relation == \"diverged\":\n            raise errors.DivergedBranches(self, other_branch)", "        elif relation == \"diverged\":\n            return True", expect="R2-relation-table"),
    Mutant("tip written before the append-only check", BB, "            if self.get_append_revisions_only():\n                self._check_history_violation(revision_id)\n            self._run_pre_change_branch_tip_hooks(revno, revision_id)\n            self._write_last_revision_info(revno, revision_id)\n", "            self._run_pre_change_branch_tip_hooks(revno, revision_id)\n            self._write_last_revision_info(revno, revision_id)\n            if self.get_append_revisions_only():\n                self._check_history_violation(revision_id)\n", expect="R3-append-only-enforced"),
    Mutant("history violation only warned", BB, "        raise errors.AppendRevisionsOnlyViolation(self.user_url)\n", "        mutter(\"append_revisions_only violated for %s\", self.user_url)\n", expect="R3-violation-raises"),
    Mutant("append-only option read from the branch-only stack", BR, "        return self.get_config_stack().get(\"append_revisions_only\")", "        return _mod_config.BranchOnlyStack(self).get(\"append_revisions_only\")", expect="R3-option-from-full-stack"),
    Mutant("neutral: graph obtained earlier", BR, "            self.fetch(stop_revision=stop_revision)\n            # Check to see if one is an ancestor of the other\n            if not overwrite:\n                if graph is None:\n                    graph = self.target.repository.get_graph()\n", "            self.fetch(stop_revision=stop_revision)\n            if graph is None:\n                graph = self.target.repository.get_graph()\n            # Check to see if one is an ancestor of the other\n            if not overwrite:\n", neutral=True),
]
