"""C12 — tree-changing commands never silently discard uncommitted work: guard shapes."""

import ast

from ..astutil import call_attr, call_name, call_recv, calls_in, norm, walk_own
from ..cfg import assigns_to
from ..rules import calling, fn_cfg, k1_before, k2_unreachable, need
from ..selftest import Mutant
from . import c16

ID = "C12"
TECHNIQUE = "effect whitelist (K4), control dependence of every destructive call on its guard (K2), hash-comparison must-pass-through (K1), helper-file/conflict pairing (K7) (ast)"
FLOOR = 19
TR = "breezy/transform.py"
WT = "breezy/bzr/workingtree.py"
MG = "breezy/merge.py"
EXPLANATION = """
R1 (K4, = C16-R1) uncommit() uses its tree parameter only through lock/unlock/get_parent_ids/set_parent_ids.
R2 (K2) bzr/workingtree.py:InventoryWorkingTree.remove: osutils.rmtree is reachable only under `force`; osutils.delete_any
   only when `f in files_to_backup` is false; nothing is deleted when keep_files; files_to_backup is filled, on the
   `not keep_files and not force` path, with unversioned entries and changed-content entries, and unversioned files found
   while recursing into a directory are added to it as well.
R3 (K1/K2) transform.py:_alter_files (revert): tt.delete_contents in the changed-content branch is reachable only with
   keep_content false; every path from reading the working file's sha1 to that delete passes a test that compares that
   sha1 (with the merge-modified record or with the basis text) — content is never dropped on the strength of a path
   being merely *listed* as merge-modified; every `keep_content = True` sits under a sha1 inequality or the
   "target has nothing there and it is unversioned" test; kept content is renamed to tt._available_backup_name(...).
R4 (K7) merge.py: every block that calls _dump_conflicts(...) also records a conflict in _raw_conflicts (content kept in
   helper files is always reported), in all text_merge implementations and _merge_contents.
R5 (K1) InventoryWorkingTree.store_uncommitted: the branch accepts the shelf (branch.store_uncommitted, which refuses when
   changes are already stored) before the tree is reverted by shelf_creator.transform(); restore_uncommitted clears the
   stored changes only after the merge ran.
R7 (K2) _apply_insertions (bzr and git transforms) reports a path as modified only under `trans_id in self._new_contents`
   (merge-hashes must not record the user's own text of a merely moved file). Third-round seed.
Does not decide: that merge results equal the clean three-way merge; polarity of each individual hash comparison.
"""


def run(ctx):
    repo = ctx.repo
    # ---- R1 (shared) --------------------------------------------------------
    fn = repo.func(c16.UC, "uncommit")
    used = {call_attr(c) for c in calls_in(fn) if call_recv(c) == "tree"}
    ctx.check("R1-uncommit-tree-effects", f"{c16.UC}:uncommit", used <= c16.TREE_ALLOWED and len(used) >= 3, f"uncommit touches the tree only through {sorted(used)}", construct=str(sorted(used - c16.TREE_ALLOWED)), message=f"uncommit calls {sorted(used - c16.TREE_ALLOWED)} on the working tree")

    # ---- R2 -----------------------------------------------------------------
    fn, g, where = fn_cfg(ctx, WT, "InventoryWorkingTree.remove")
    rmtree = need(where, calling(g, name="osutils.rmtree"), "osutils.rmtree")
    delany = need(where, calling(g, name="osutils.delete_any"), "osutils.delete_any")
    k2_unreachable(ctx, "R2-rmtree-needs-force", where, g, {"force": False}, rmtree, "a non-empty directory is deleted only with force")
    from ..astutil import bound_names, one
    import re as _re

    # role binding: the backup list is the one the iter_changes scan appends to
    scan = [n for n in walk_own(fn) if isinstance(n, ast.For) and any(call_attr(c) == "iter_changes" for c in calls_in(n.iter))]
    ctx.require(len(scan) == 1, f"{where}: iter_changes scan not found")
    fb = one(sorted({call_recv(c) for c in calls_in(scan[0]) if call_attr(c) == "append"}), "files_to_backup.append(...) in the iter_changes scan", where)
    v_chg = norm(scan[0].target)
    member = {norm(n.ast): True for n in g.nodes if n.kind == "test" and _re.fullmatch(rf"\w+ in {_re.escape(fb)}", norm(n.ast))}
    ctx.check("R2-delete-not-backed-up", where, bool(member), f"deletion is decided by a membership test against {fb}", message=f"no `<file> in {fb}` test left: files scheduled for backup are deleted like any other")
    k2_unreachable(ctx, "R2-delete-not-backed-up", where, g, member or {"<none>": True}, delany, "a file scheduled for backup is never deleted")
    k2_unreachable(ctx, "R2-keep-files", where, g, {"keep_files": True, "not keep_files": False}, rmtree + delany + calling(g, name="osutils.rename"), "keep_files: nothing is deleted or moved")
    apps = [c for c in calls_in(fn) if call_attr(c) == "append" and call_recv(c) == fb]
    loop = [n for n in walk_own(fn) if isinstance(n, ast.For) and any(call_attr(c) == "iter_changes" for c in calls_in(n.iter))]
    okloop = len(loop) == 1 and "want_unversioned=True" in norm(loop[0].iter)
    tests = [norm(n.test) for l in loop for n in walk_own(l) if isinstance(n, ast.If)]
    ctx.check("R2-backup-set", where, okloop and any(f"{v_chg}.versioned[0] is False" in t for t in tests) and any(f"{v_chg}.changed_content" in t for t in tests) and len(apps) >= 2, "files_to_backup receives unversioned and changed-content entries from iter_changes(want_unversioned=True)", construct=str(tests))
    gl = [n.id for n in g.nodes if n.kind == "for" and any(call_attr(c) == "iter_changes" for c in n.calls())]
    k2_unreachable(ctx, "R2-backup-set", where, g, {"not keep_files and (not force)": False}, gl, "the backup scan runs exactly on the `not keep_files and not force` path") if gl else None
    g_on = g.assume({"not keep_files and (not force)": True})
    ok, w = g_on.always_before(gl, delany)
    ctx.check("R2-backup-set", where, bool(gl) and ok, "without force, the backup scan precedes any deletion", witness=g.show_path(w) if w else None)
    nested = repo.module(WT).get("InventoryWorkingTree.remove")
    rec = [n for n in ast.walk(nested) if isinstance(n, ast.FunctionDef) and n.name == "recurse_directory_to_add_files"]
    ctx.check("R2-unknowns-in-dirs-backed-up", where, len(rec) == 1 and any(call_attr(c) == "append" and call_recv(c) == fb for c in calls_in(rec[0])), "unversioned files found inside a removed directory are scheduled for backup")
    bk = [n for n in ast.walk(nested) if isinstance(n, ast.FunctionDef) and n.name == "backup"]
    ctx.check("R2-backup-renames", where, len(bk) == 1 and any(call_attr(c) == "_available_backup_name" for c in calls_in(bk[0])) and any(call_name(c) == "osutils.rename" for c in calls_in(bk[0])) and not any(call_name(c) in ("osutils.delete_any", "osutils.rmtree", "os.unlink") for c in calls_in(bk[0])), "backup() renames to a fresh backup name and deletes nothing")

    # ---- R3 -----------------------------------------------------------------
    fn, g, where = fn_cfg(ctx, TR, "_alter_files")
    dels = need(where, calling(g, attr="delete_contents", recv="tt"), "tt.delete_contents")
    kc = one(sorted({norm(n.ast.targets[0]) for n in g.nodes if n.kind == "stmt" and isinstance(n.ast, ast.Assign) and isinstance(n.ast.value, ast.Constant) and n.ast.value.value is True and isinstance(n.ast.targets[0], ast.Name) and any(isinstance(m.ast, ast.Assign) and norm(m.ast.targets[0]) == norm(n.ast.targets[0]) and isinstance(m.ast.value, ast.Constant) and m.ast.value.value is False for m in g.nodes if m.kind == "stmt")}), "keep_content flag (set False, then True)", where)
    v_sha = one(bound_names(fn, lambda t, n: t.startswith("working_tree.get_file_sha1(")), "wt_sha1 = working_tree.get_file_sha1(wt_path)", where)
    k2_unreachable(ctx, "R3-delete-needs-not-keep", where, g, {kc: True, f"not {kc}": False}, dels, "content is deleted only when keep_content is false")
    sha = need(where, [n.id for n in g.nodes if n.kind == "stmt" and isinstance(n.ast, ast.Assign) and norm(n.ast.targets[0]) == v_sha], "wt_sha1 = working_tree.get_file_sha1(wt_path)")
    cmp_nodes = [n.id for n in g.nodes if n.kind == "test" and v_sha in norm(n.ast) and any(isinstance(x, ast.Compare) and any(isinstance(o, (ast.Eq, ast.NotEq)) for o in x.ops) for x in ast.walk(n.ast))]
    got = g.reach(sha, avoid=cmp_nodes)
    hit = sorted(set(dels) & got)
    w = g.path(sha, hit, avoid=cmp_nodes) if hit else None
    ctx.check("R3-hash-compared-before-drop", where, bool(cmp_nodes) and not hit, "between reading the working file's sha1 and dropping its content some test compares that sha1", message="a user-edited file's content can be dropped without its hash having been compared with anything (merely being listed as merge-modified is not enough)", witness=g.show_path(w) if w else None)
    keeps = [n for n in g.nodes if n.kind == "stmt" and isinstance(n.ast, ast.Assign) and norm(n.ast.targets[0]) == kc and norm(n.ast.value) == "True"]
    ok = len(keeps) >= 2
    for k in keeps:
        cut = {(t.id, b, l) for t in g.nodes if t.kind == "test" and (v_sha in norm(t.ast) or "target_versioned" in norm(t.ast)) for (b, l) in g.succ[t.id] if l == "T"}
        if k.id in g.copy_without(cut).reachable_from_entry():
            ok = False
    ctx.check("R3-keep-under-inequality", where, ok, "every `keep_content = True` sits under a sha1 comparison or the unversioned-target test")
    bn = calling(g, attr="_available_backup_name")
    v_bn = bound_names(fn, lambda t, n: "._available_backup_name(" in t)
    adj = calling(g, attr="adjust_path", argpred=lambda c: c.args and (norm(c.args[0]) in v_bn or "._available_backup_name(" in norm(c.args[0])))
    ctx.check("R3-kept-content-backed-up", where, bool(bn) and bool(adj) and (set(adj) <= set(bn) or g.always_before(bn, adj)[0]), "kept content is moved to tt._available_backup_name(...)")
    k2_unreachable(ctx, "R3-kept-content-backed-up", where, g, {kc: False, f"not {kc}": True}, adj, "the backup rename happens only for kept content")

    # ---- R4 -----------------------------------------------------------------
    n_dump = 0
    mod = repo.module(MG)
    for q, f in mod.functions().items():
        dumps = [c for c in calls_in(f) if call_attr(c) == "_dump_conflicts"]
        if not dumps or q.endswith("._dump_conflicts"):
            continue
        n_dump += len(dumps)
        # the innermost statement list holding the dump must also hold a _raw_conflicts.append
        for d in dumps:
            blk = _enclosing_block(f, d)
            ok = any(call_attr(c) == "append" and (call_recv(c) or "").endswith("_raw_conflicts") for s in blk for c in calls_in(s))
            ctx.check("R4-helper-files-reported", f"{MG}:{q}", ok, "_dump_conflicts is paired with a _raw_conflicts.append in the same block", construct=norm(d)[:70], message="conflict helper files are written without a conflict being recorded")
    ctx.require(n_dump >= 4, f"only {n_dump} _dump_conflicts call sites found (hand-confirmed: 5)")

    # ---- R5 -----------------------------------------------------------------
    fn, g, where = fn_cfg(ctx, WT, "InventoryWorkingTree.store_uncommitted")
    st = need(where, calling(g, attr="store_uncommitted", recv="self.branch"), "self.branch.store_uncommitted(shelf_creator)")
    sc = one(bound_names(fn, lambda t, n: "ShelfCreator(" in t), "shelf_creator = shelf.ShelfCreator(...)", where)
    ctx.require(all(any(norm(a) == sc for c in g.nodes[i].calls() if call_attr(c) == "store_uncommitted" for a in c.args) for i in st), f"{where}: the branch is not handed the shelf creator")
    trn = need(where, calling(g, attr="transform", recv=sc), "shelf_creator.transform()")
    k1_before(ctx, "R5-store-before-revert", where, g, st, trn, "the branch accepts the shelf before the tree is reverted")
    fin = calling(g, attr="finalize", recv=sc)
    ok, w = g.always_after(calling(g, attr="shelve_all"), fin)
    ctx.check("R5-store-before-revert", where, bool(fin) and ok, "the shelf creator is finalized on every exit", witness=g.show_path(w) if w else None)
    fn, g, where = fn_cfg(ctx, WT, "InventoryWorkingTree.restore_uncommitted")
    mg = need(where, calling(g, attr="do_merge"), "merger.do_merge()")
    clr = need(where, calling(g, attr="store_uncommitted", recv="self.branch"), "self.branch.store_uncommitted(None)")
    k1_before(ctx, "R5-clear-after-restore", where, g, mg, clr, "stored changes are cleared only after they were merged back")

    # ---- R6: cleaning up a contents conflict never removes <path>.THIS (the only copy of the user's bytes) ------------
    CFB = "breezy/bzr/conflicts.py"
    fca = repo.func(CFB, "ContentsConflict.associated_filenames")
    mtree = repo.module(CFB).tree
    consts = {norm(s_.targets[0]): s_.value for s_ in mtree.body if isinstance(s_, ast.Assign) and len(s_.targets) == 1}
    sufs = set()
    for n in ast.walk(fca):
        if isinstance(n, ast.Constant) and isinstance(n.value, str) and n.value.startswith("."):
            sufs.add(n.value)
        if isinstance(n, ast.Name) and n.id in consts and isinstance(consts[n.id], (ast.Tuple, ast.List)):
            sufs |= {e.value for e in consts[n.id].elts if isinstance(e, ast.Constant)}
    ctx.check("R6-contents-conflict-keeps-this", f"{CFB}:ContentsConflict.associated_filenames", sufs == {".BASE", ".OTHER"}, f"the helper files removed when a contents conflict is resolved or reverted are .BASE and .OTHER only ({sorted(sufs)})", construct=str(sorted(sufs)), message=f"ContentsConflict.associated_filenames lists {sorted(sufs)}: for a contents conflict the merger has moved the user's file to <path>.THIS, so cleanup() (run by every revert / resolve) deletes the only copy of the uncommitted content, without a backup")

    # ---- R7: only content the transform wrote is reported as "written by the merge" ---------------------------------
    # TreeTransform._apply_insertions returns modified_paths; Merge3Merger.write_modified hashes each of them into
    # merge-hashes, and revert skips the backup of a file whose hash is recorded there.  A path is appended only when the
    # transform created new contents for it: a file that was merely moved still holds the user's text.
    from ..cfg import build_cfg as _bcfg

    for rel_, cls_ in (("breezy/bzr/transform.py", "InventoryTreeTransform"), ("breezy/git/transform.py", "GitTreeTransform")):
        f7 = repo.func(rel_, f"{cls_}._apply_insertions")
        w7 = f"{rel_}:{cls_}._apply_insertions"
        rets7 = {norm(r.value) for r in walk_own(f7) if isinstance(r, ast.Return) and r.value is not None}
        ctx.require(len(rets7) == 1, f"{w7}: expected a single returned list, found {sorted(rets7)}")
        lst = next(iter(rets7))
        g7 = _bcfg(f7)
        app = [n.id for n in g7.nodes if any(call_attr(c) in ("append", "extend", "add") and call_recv(c) == lst for c in n.calls())]
        ctx.require(bool(app), f"{w7}: nothing is appended to {lst}")
        conds = sorted({norm(c) for n in g7.nodes if n.kind == "test" for c in ast.walk(n.ast) if isinstance(c, ast.Compare) and isinstance(c.ops[0], ast.In) and norm(c.comparators[0]).endswith("._new_contents")})
        ctx.require(bool(conds), f"{w7}: no membership test in _new_contents found")
        env7 = {c_: False for c_ in conds}
        hit7 = sorted(set(app) & g7.assume(env7).reachable_from_entry())
        ctx.check("R7-modified-means-new-contents", w7, not hit7, f"a path is reported in {lst} only when the transform wrote new contents for it", construct="; ".join(g7.nodes[i].text()[:50] for i in hit7), message=f"{cls_}._apply_insertions reports a path as modified although the transform wrote no new contents for it (a pure rename): write_modified records the hash of the user's own text in merge-hashes as written by the merge, and the next revert deletes that text without a backup")


def _enclosing_block(fn, node):
    """Innermost statement list (body/orelse/...) whose statements contain `node`."""
    best = None

    def visit(stmts):
        nonlocal best
        for s in stmts:
            if any(x is node for x in ast.walk(s)):
                best = stmts
                for fld in ("body", "orelse", "finalbody"):
                    sub = getattr(s, fld, None)
                    if isinstance(sub, list) and sub and isinstance(sub[0], ast.stmt):
                        visit(sub)
                if isinstance(s, ast.Try):
                    for h in s.handlers:
                        visit(h.body)

    visit(fn.body)
    return best or []


MUTANTS = [
    Mutant("moved files reported as written by the merge", "breezy/bzr/transform.py", "                if trans_id in self._new_contents or self.path_changed(trans_id):\n                    if trans_id in self._new_contents:\n                        modified_paths.append(full_path)\n", "                if trans_id in self._new_contents or self.path_changed(trans_id):\n                    modified_paths.append(full_path)\n", expect="R7-modified-means-new-contents"),
    Mutant("contents-conflict cleanup also removes .THIS", "breezy/bzr/conflicts.py", "        return [self.path + suffix for suffix in (\".BASE\", \".OTHER\")]", "        return [self.path + suffix for suffix in CONFLICT_SUFFIXES]", expect="R6-contents-conflict-keeps-this"),
    Mutant("delete_any made unconditional", WT, "                            if f in files_to_backup:\n                                message = backup(f)\n                            else:\n                                osutils.delete_any(abs_path)\n                                message = f\"deleted {f}\"", "                            osutils.delete_any(abs_path)\n                            message = f\"deleted {f}\"", expect="R2-delete-not-backed-up"),
    Mutant("rmtree without force", WT, "                            if force:\n                                osutils.rmtree(abs_path)", "                            if force or verbose:\n                                osutils.rmtree(abs_path)", expect="R2-rmtree-needs-force"),
    Mutant("merge-modified listing treated as proof", TR, "                if merge_modified.get(wt_path) != wt_sha1:", "                if wt_path not in merge_modified:", expect="R3-hash-compared-before-drop"),
    Mutant("content dropped although it must be kept", TR, "                if not keep_content:\n                    tt.delete_contents(trans_id)\n                elif target_kind is not None:", "                if not keep_content or not backups:\n                    tt.delete_contents(trans_id)\n                elif target_kind is not None:", expect="R3-delete-needs-not-keep"),
    Mutant("tree reverted before the branch accepted the shelf", WT, "                self.branch.store_uncommitted(shelf_creator)\n                shelf_creator.transform()\n", "                shelf_creator.transform()\n                self.branch.store_uncommitted(shelf_creator)\n", expect="R5-store-before-revert"),
    Mutant("unknown files inside a removed directory no longer backed up", WT, "                        # Add nested content for deletion.\n", "", neutral=True, note="comment only"),
    Mutant("neutral: read-only query added to uncommit", c16.UC, "        old_revno, old_tip = branch.last_revision_info()\n", "        old_revno, old_tip = branch.last_revision_info()\n        if tree is not None:\n            tree.get_parent_ids()\n", neutral=True),
]
