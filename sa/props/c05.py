"""C05 — concurrent pack writers never lose committed data: per-process obligations."""

import ast

from ..absint import Interp, Obj, Opaque, Raised
from ..astutil import call_name, call_attr, call_recv, calls_in, dotted, norm, walk_own
from ..cfg import assigns_to
from ..rules import calling, fn_cfg, k1_before, k1_never_after, k2_unreachable, k3_after, need
from ..selftest import Mutant

ID = "C05"
TECHNIQUE = "set-algebra truth table extracted by abstract interpretation (8 membership rows) + CFG pairing/guard rules (ast)"
FLOOR = 44
PR = "breezy/bzr/pack_repo.py"
COLL = "RepositoryPackCollection"
EXPLANATION = """
R1 (K3/K1) _save_pack_names: lock_names() precedes _diff_pack_names() and the pack-names write; after lock_names()
   every exit (normal and exceptional) passes _unlock_names(); _packs_at_load is reassigned only after the write and
   from the merged node set that was written.
R1b after the write, _syncronize_pack_names_from_disk_nodes(<merged set>) runs on every normal path of _save_pack_names
   (found by the mutation survey tools/automutate.py).
R2 (K8) _diff_pack_names is evaluated abstractly on one element per combination of the three membership bits
   (listed on disk now / in _packs_at_load / in memory _names) — 8 rows, exhaustive because the function only applies
   pointwise set operations — and the returned sets must equal the three-way merge: an entry this process changed
   (at-load != memory) takes memory's verdict, every other entry takes disk's; deleted = at-load minus memory,
   new = memory minus at-load, and the 4th result is the untouched disk set.
R3 (K2) _clear_obsolete_packs: delete(filename) is unreachable when `name in preserve` holds (just-obsoleted packs a
   concurrent reader may still need are preserved).
R4 (K5/K2) reload_pack_names assigns _packs_at_load the *original* disk nodes (4th result), not the merged set;
   _restart_autopack / _restart_pack_operations re-raise the original error when reload found nothing new and raise the
   retry exception otherwise, never returning normally; autopack()/pack() loop again on the retry exception.
R6 (K2) allocate(): under `<pack>.name in self._names` every path raises (no quiet return for a name already listed).
R7 (K6) ErrorConvertingTransport converts NoSuchFile in each tabled read entry point (get_bytes, readv) and the pack
   collection wraps both its index and upload transports with it.
Does not decide: interleavings; these are the per-process obligations each of which the interleaving argument needs.
"""
ASSUMPTIONS = ["repo.control_files.lock_write() (names mutex) gives mutual exclusion between processes (C26)"]


def run(ctx):
    repo = ctx.repo
    # ---- R1 ---------------------------------------------------------------
    fn, g, where = fn_cfg(ctx, PR, f"{COLL}._save_pack_names")
    lock = need(where, calling(g, attr="lock_names", recv="self"), "lock_names()")
    diff = need(where, calling(g, attr="_diff_pack_names", recv="self"), "_diff_pack_names()")
    put = need(where, calling(g, attr={"put_file", "put_bytes", "put_file_non_atomic", "put_bytes_non_atomic"}, argpred=lambda c: c.args and norm(c.args[0]) == "'pack-names'"), "pack-names write")
    unlock = need(where, calling(g, attr="_unlock_names", recv="self"), "_unlock_names()")
    k1_before(ctx, "R1-lock-before-diff", where, g, lock, diff, "names mutex taken before the disk list is read for merging")
    k1_before(ctx, "R1-lock-before-put", where, g, lock, put, "names mutex taken before pack-names is written")
    k1_before(ctx, "R1-diff-before-put", where, g, diff, put, "disk list is re-read and merged (under the mutex) before writing")
    k3_after(ctx, "R1-unlock-on-all-exits", where, g, lock, unlock, "after lock_names() every exit, normal or exceptional, passes _unlock_names()")
    k1_never_after(ctx, "R1-no-write-after-unlock", where, g, unlock, put + diff, "nothing is read/merged/written after the mutex was released")
    # R5 (shared with C04-R2): a reader must never find a pack listed whose files were already moved away
    obs = need(where, calling(g, attr={"_obsolete_packs", "_clear_obsolete_packs"}, recv="self"), "_obsolete_packs/_clear_obsolete_packs")
    k1_before(ctx, "R5-publish-before-obsolete", where, g, put, obs, "the new pack-names is published before any listed pack is moved to / deleted from obsolete_packs (a concurrent reader that reloads finds the data)")
    setl = need(where, g.find(assigns_to("self._packs_at_load")), "assignment of _packs_at_load")
    k1_before(ctx, "R1-atload-after-put", where, g, put, setl, "_packs_at_load is refreshed only after the write succeeded")
    # provenance: the unpack of _diff_pack_names() binds name0; the put loop iterates name0; _packs_at_load = name0
    names = _unpack_names(fn, "_diff_pack_names")
    ctx.require(names is not None and len(names) == 4, f"{where}: result of _diff_pack_names() is not unpacked into 4 names")
    merged = names[0]
    vals = [norm(g.nodes[i].ast.value) for i in setl]
    ctx.check("R1-atload-is-written-set", where, all(v == merged for v in vals), f"_packs_at_load := {merged} (the merged set that was written)", construct="; ".join(vals), message=f"_packs_at_load is assigned {vals}, not the merged set `{merged}` that was written")
    # after the write the in-memory name list is brought in line with the merged set: _packs_at_load already is the merged
    # set, so a memory list that still lacks another writer's pack would make the next save classify that pack as
    # "deleted by us" and drop it from pack-names
    sync1 = [i for i in calling(g, attr="_syncronize_pack_names_from_disk_nodes") if any(norm(c.args[0]) == merged for c in g.nodes[i].calls() if call_attr(c) == "_syncronize_pack_names_from_disk_nodes" and c.args)]
    gxs = g.without_exc_edges()
    r_sync = gxs.reach(put, avoid=set(sync1))
    ctx.check("R1-memory-follows-written-set", where, bool(sync1) and gxs.exit not in r_sync, f"after pack-names was written, _syncronize_pack_names_from_disk_nodes({merged}) runs on every normal path", message=f"_save_pack_names can return after writing pack-names without bringing the in-memory name list in line with the merged set `{merged}`: _packs_at_load already contains the other writers' packs, the memory list does not, so the next save takes them for packs this process deleted and removes them from pack-names — committed data of a concurrent writer is lost")
    loops = [n for n in walk_own(fn) if isinstance(n, ast.For) and any(call_attr(c) == "add_node" for c in calls_in(n))]
    ctx.check("R1-written-set-is-merged", where, len(loops) == 1 and norm(loops[0].iter) == merged, f"the index written to pack-names is built from `{merged}`", construct=norm(loops[0].iter) if loops else "", message="the pack-names content is not built from the merged node set")

    # ---- R2: truth table of _diff_pack_names ---------------------------------
    fn = repo.func(PR, f"{COLL}._diff_pack_names")
    where = f"{PR}:{COLL}._diff_pack_names"
    rows = []
    for bits in range(8):
        disk, atload, mem = bool(bits & 4), bool(bits & 2), bool(bits & 1)
        rows.append((f"p{bits}", disk, atload, mem))
    atom = lambda nm: (nm, b"1 2")
    me = Obj("collection")
    me.set("_names", {nm: (1, 2) for nm, d, a, m in rows if m})
    me.set("_packs_at_load", {atom(nm) for nm, d, a, m in rows if a})
    disk_entries = [(None, (nm.encode("ascii"),), b"1 2") for nm, d, a, m in rows if d]

    def hook(interp, call, name, ev_args, env):
        if name == "self._iter_disk_pack_index":
            return list(disk_entries)
        return NotImplemented

    it = Interp(call_hook=hook)
    try:
        res = it.call(fn, {"self": me})
    except Raised as r:
        ctx.require(False, f"{where}: abstract evaluation raised {r.name}")
    ctx.require(isinstance(res, tuple) and len(res) == 4 and all(isinstance(x, (set, frozenset)) for x in res), f"{where}: expected a 4-tuple of sets, got {type(res).__name__}")
    merged_set, deleted, new, orig = res
    for nm, d, a, m in rows:
        want = m if a != m else d
        row = f"on-disk={int(d)} at-load={int(a)} in-memory={int(m)}"
        ctx.check("R2-three-way-merge", where, (atom(nm) in merged_set) == want, f"{row} -> listed={int(want)}", construct=row, message=f"three-way merge wrong for {row}: got listed={int(atom(nm) in merged_set)}, want {int(want)}")
        ctx.check("R2-deleted", where, (atom(nm) in deleted) == (a and not m), f"{row} -> deleted={int(a and not m)}", construct=row, message=f"deleted_nodes wrong for {row}")
        ctx.check("R2-new", where, (atom(nm) in new) == (m and not a), f"{row} -> new={int(m and not a)}", construct=row, message=f"new_nodes wrong for {row}")
        ctx.check("R2-orig-disk", where, (atom(nm) in orig) == d, f"{row} -> orig_disk={int(d)}", construct=row, message=f"4th result (original disk nodes) wrong for {row}")
    ctx.sample({"diff_pack_names_table": [{"disk": d, "at_load": a, "memory": m, "listed": atom(nm) in merged_set, "deleted": atom(nm) in deleted, "new": atom(nm) in new} for nm, d, a, m in rows]})
    # the abstract state must not have been mutated (function is a pure read of memory state)
    ctx.check("R2-pure", where, me.get("_packs_at_load") == {atom(nm) for nm, d, a, m in rows if a} and set(me.get("_names")) == {nm for nm, d, a, m in rows if m}, "_diff_pack_names does not modify _names/_packs_at_load")

    # ---- R3 -----------------------------------------------------------------
    fn, g, where = fn_cfg(ctx, PR, f"{COLL}._clear_obsolete_packs", roles={"files": ("assign", "~.*\\.list_dir\\(.*\\)"), "filename": ("for", "{files}"), "name": ("assign", "osutils.splitext({filename})", 0)})
    dels = need(where, calling(g, attr={"delete", "delete_tree", "rmdir"}), "delete call")
    k2_unreachable(ctx, "R3-preserve-guard", where, g, {"name in preserve": True}, dels, "a file whose pack name is in `preserve` is never deleted")
    pres = [n for n in walk_own(fn) if isinstance(n, ast.Compare) and norm(n) == "name in preserve"]
    ctx.check("R3-preserve-guard", where, bool(pres), "`name in preserve` test exists", message="the preserve test disappeared")

    # ---- R4 -----------------------------------------------------------------
    fn, g, where = fn_cfg(ctx, PR, f"{COLL}.reload_pack_names")
    names = _unpack_names(fn, "_diff_pack_names")
    ctx.require(names is not None and len(names) == 4, f"{where}: result of _diff_pack_names() is not unpacked into 4 names")
    setl = g.find(assigns_to("self._packs_at_load"))
    if not setl:
        ctx.check("R4-atload-is-orig-disk", where, False, "reload rebases _packs_at_load on what the disk lists now", message="reload_pack_names no longer assigns self._packs_at_load: a pack another process wrote, learnt only through this reload, is not part of the base of the next _save_pack_names — when it is combined away it is not recognised as removed, stays listed in pack-names while its files move to obsolete_packs, and readers fail with NoSuchFile")
        return
    vals = [norm(g.nodes[i].ast.value) for i in setl]
    ctx.check("R4-atload-is-orig-disk", where, all(v == names[3] for v in vals), f"reload: _packs_at_load := {names[3]} (original disk nodes, 4th result)", construct="; ".join(vals), message=f"reload_pack_names sets _packs_at_load to {vals}; pending in-memory names would then look already written and be dropped by the next merge")
    sync = need(where, calling(g, attr="_syncronize_pack_names_from_disk_nodes"), "_syncronize_pack_names_from_disk_nodes call")
    ctx.check("R4-sync-merged", where, all(norm(c.args[0]) == names[0] for i in sync for c in g.nodes[i].calls() if call_attr(c) == "_syncronize_pack_names_from_disk_nodes"), f"memory is resynchronised from the merged set `{names[0]}`")
    for meth, exc in (("_restart_autopack", "RetryAutopack"), ("_restart_pack_operations", "RetryPackOperations")):
        fn, g, where = fn_cfg(ctx, PR, f"{COLL}.{meth}")
        raises = [n.id for n in g.nodes if n.kind == "stmt" and isinstance(n.ast, ast.Raise)]
        bare = [i for i in raises if g.nodes[i].ast.exc is None]
        retry = [i for i in raises if g.nodes[i].ast.exc is not None and exc in norm(g.nodes[i].ast.exc)]
        ctx.check("R4-restart", where, bool(bare) and bool(retry) and g.exit not in g.reachable_from_entry(), f"{meth} never returns normally: re-raises or raises {exc}", message=f"{meth} can return normally / lacks the re-raise or {exc}")
        g_f = g.assume({"self.reload_pack_names()": False})
        g_t = g.assume({"self.reload_pack_names()": True})
        ok = not (set(retry) & g_f.reachable_from_entry()) and not (set(bare) & g_t.reachable_from_entry())
        ctx.check("R4-restart", where, ok, f"{meth}: nothing reloaded -> original error re-raised; something reloaded -> {exc}", message=f"{meth}: retry/re-raise polarity is wrong")
    for meth, callee, exc in (("autopack", "_do_autopack", "RetryAutopack"), ("pack", "_try_pack_operations", "RetryPackOperations")):
        fn, g, where = fn_cfg(ctx, PR, f"{COLL}.{meth}")
        hs = [n.id for n in g.nodes if n.kind == "handler" and exc in norm(n.ast.type)]
        calls = need(where, calling(g, attr=callee), callee)
        ok = bool(hs) and all(set(calls) & g.reach([h]) for h in hs)
        ctx.check("R4-retry-loop", where, ok, f"{meth}(): catching {exc} leads back to {callee}()", message=f"{meth}() no longer retries after {exc}")

    # ---- R6: allocate() refuses a pack name that is already listed ---------------------------------------------------
    # The "already exists" error is what stops _execute_pack_operations when a packer, after a concurrent pack and a
    # retry, reproduces one of its own source packs (same content, same md5 name): returning quietly lets it go on to
    # pop that name, write pack-names without it and move the only copy to obsolete_packs/.
    fal, gal, wal = fn_cfg(ctx, PR, f"{COLL}.allocate")
    galx = gal.without_exc_edges()
    dup = [n.id for n in galx.nodes if n.kind == "test" and any(isinstance(c, ast.Compare) and isinstance(c.ops[0], ast.In) and norm(c.left).endswith(".name") and norm(c.comparators[0]) == "self._names" for c in ast.walk(n.ast))]
    ctx.require(len(dup) >= 1, f"{wal}: the `<pack>.name in self._names` test was not found")
    cond6 = next(norm(c) for t in dup for c in ast.walk(galx.nodes[t].ast) if isinstance(c, ast.Compare) and isinstance(c.ops[0], ast.In) and norm(c.comparators[0]) == "self._names")
    g6 = galx.assume({cond6: True, f"not {cond6}": False, f"{cond6.replace(' in ', ' not in ')}": False})
    r6 = g6.reachable_from_entry()
    w6 = g6.path([g6.entry], [g6.exit]) if g6.exit in r6 else None
    ctx.check("R6-allocate-refuses-duplicate", wal, g6.exit not in r6, "when the pack's name is already listed, allocate() raises on every path", construct="a normal return under `name in self._names`", message="allocate() can return normally for a pack whose name is already in pack-names: after a concurrent pack and a retry, a packer that reproduces one of its source packs no longer stops — it removes that name from the list and obsoletes the only copy of the data", witness=galx.show_path(w6) if w6 else None)
    # ---- R7: index and upload transports convert NoSuchFile at every read entry point ---------------------------------
    # CombinedGraphIndex reloads pack-names only on bzrformats' NoSuchFile.  The entry points the index implementations
    # read through are tabled (hand-confirmed on the pinned tree: get_bytes for whole-file GraphIndex reads, readv for
    # paged reads); the wrapper must define each with a handler that converts, and the collection must wrap both
    # transports with it.
    TR = "breezy/transport/__init__.py"
    READ_ENTRY_POINTS = ("get_bytes", "readv")
    wcls = repo.cls(TR, "ErrorConvertingTransport")
    for meth in READ_ENTRY_POINTS:
        f_ = next((m for m in wcls.body if isinstance(m, ast.FunctionDef) and m.name == meth), None)
        conv = f_ is not None and any(isinstance(h, ast.ExceptHandler) and h.type is not None and "NoSuchFile" in norm(h.type) and any(call_attr(c) == "_convert" for c in calls_in(h)) for h in ast.walk(f_))
        ctx.check("R7-missing-file-error-converted", f"{TR}:ErrorConvertingTransport.{meth}", conv, f"{meth}() converts the transport's NoSuchFile into the one the indices reload on", message=f"ErrorConvertingTransport no longer converts NoSuchFile raised by {meth}(): a reader holding a pre-pack view that reads an index through {meth}() after a concurrent pack gets a hard NoSuchFile instead of reloading pack-names, although the data is in the new pack")
    finit = repo.func(PR, f"{COLL}.__init__")
    wrapped = {norm(s_.targets[0]) for s_ in walk_own(finit) if isinstance(s_, ast.Assign) and isinstance(s_.value, ast.Call) and norm(s_.value.func).endswith("ErrorConvertingTransport")}
    ctx.check("R7-missing-file-error-converted", f"{PR}:{COLL}.__init__", {"self._index_transport", "self._upload_transport"} <= wrapped, f"the index and upload transports are wrapped ({sorted(wrapped)})")
    # ---- R8: every aggregate index of the collection can reload pack-names (fourth round) ------------------------------------
    fin_ = repo.func(PR, f"{COLL}.__init__")
    aggs = [c for c in calls_in(fin_) if (call_name(c) or norm(c.func)).split(".")[-1] == "AggregateIndex"]
    ctx.require(len(aggs) >= 4, f"{PR}:{COLL}.__init__: only {len(aggs)} AggregateIndex(...) constructions found (hand-confirmed: 5)")
    noreload = [f"L{c.lineno}:{norm(c)[:60]}" for c in aggs if not (c.args and norm(c.args[0]) == "self.reload_pack_names") and not any(k.arg in ("reload_func",) and norm(k.value) == "self.reload_pack_names" for k in c.keywords)]
    ctx.check("R8-every-index-reloads", f"{PR}:{COLL}.__init__", not noreload, "all aggregate indices (revision, inventory, text, signature, chk) are given self.reload_pack_names", construct="; ".join(noreload), message=f"an aggregate index is built without the reload function ({'; '.join(noreload)}): when another process repacks, a reader whose first vanished file belongs to this index gets NoSuchFile instead of re-reading pack-names and retrying")


def _unpack_names(fn, callee):
    for n in walk_own(fn):
        if isinstance(n, ast.Assign) and isinstance(n.value, ast.Call) and call_attr(n.value) == callee and isinstance(n.targets[0], ast.Tuple):
            return [norm(e) for e in n.targets[0].elts]
    return None


MUTANTS = [
    Mutant("chk aggregate index without reload", PR, "            self.chk_index = AggregateIndex(self.reload_pack_names, flush)\n", "            self.chk_index = AggregateIndex(flush_func=flush)\n", expect="R8-every-index-reloads"),
    Mutant("memory list not resynchronised after the write", PR, "        # synchronise the memory packs list with what we just wrote:\n        self._syncronize_pack_names_from_disk_nodes(disk_nodes)\n", "", expect="R1-memory-follows-written-set"),
    Mutant("allocate tolerates a name that is already listed", PR, "        if a_new_pack.name in self._names:\n            raise errors.BzrError(f\"Pack {a_new_pack.name!r} already exists in {self}\")\n", "        if a_new_pack.name in self._names:\n            if self._names[a_new_pack.name] == tuple(a_new_pack.index_sizes):\n                return\n            raise errors.BzrError(f\"Pack {a_new_pack.name!r} already exists in {self}\")\n", expect="R6-allocate-refuses-duplicate"),
    Mutant("whole-file index reads no longer converted", "breezy/transport/__init__.py", "    def get_bytes(self, relpath):\n        try:\n            return self._transport.get_bytes(relpath)\n        except NoSuchFile as e:\n            self._convert(e)\n\n", "", expect="R7-missing-file-error-converted"),
    Mutant("drop difference_update(deleted_nodes)", PR, "        disk_nodes.difference_update(deleted_nodes)\n", "", expect="R2-three-way-merge"),
    Mutant("new_nodes computed against disk instead of at-load", PR, "        new_nodes = current_nodes - self._packs_at_load\n", "        new_nodes = current_nodes - disk_nodes\n", expect=["R2-new", "R2-three-way-merge"]),
    Mutant("orig_disk_nodes aliased (mutated by the merge)", PR, "        orig_disk_nodes = set(disk_nodes)\n", "        orig_disk_nodes = disk_nodes\n", expect="R2-orig-disk"),
    Mutant("reload sets _packs_at_load to the merged set", PR, "        self._packs_at_load = orig_disk_nodes\n", "        self._packs_at_load = disk_nodes\n", expect="R4-atload-is-orig-disk"),
    Mutant("preserve test removed", PR, "            if name in preserve:\n                continue\n", "", expect="R3-preserve-guard"),
    Mutant("_unlock_names moved out of finally", PR, "        finally:\n            self._unlock_names()\n        # synchronise the memory packs list with what we just wrote:\n", "        finally:\n            pass\n        self._unlock_names()\n        # synchronise the memory packs list with what we just wrote:\n", expect="R1-unlock-on-all-exits"),
    Mutant("diff read before taking the names mutex", PR, "        already_obsolete = []\n        self.lock_names()\n        try:\n            builder = self._index_builder_class()\n            (\n                disk_nodes,\n                _deleted_nodes,\n                new_nodes,\n                _orig_disk_nodes,\n            ) = self._diff_pack_names()\n", "        already_obsolete = []\n        (\n            disk_nodes,\n            _deleted_nodes,\n            new_nodes,\n            _orig_disk_nodes,\n        ) = self._diff_pack_names()\n        self.lock_names()\n        try:\n            builder = self._index_builder_class()\n", expect="R1-lock-before-diff"),
    Mutant("_packs_at_load refreshed before the write", PR, "            for name, value in disk_nodes:\n                builder.add_node((name.encode(\"ascii\"),), value)\n", "            self._packs_at_load = disk_nodes\n            for name, value in disk_nodes:\n                builder.add_node((name.encode(\"ascii\"),), value)\n", expect="R1-atload-after-put"),
    Mutant("restart swallows the 'nothing reloaded' case", PR, "    def _restart_autopack(self):\n        \"\"\"Reload the pack names list, and restart the autopack code.\"\"\"\n        if not self.reload_pack_names():\n            # Re-raise the original exception, because something went missing\n            # and a restart didn't find it\n            raise\n", "    def _restart_autopack(self):\n        \"\"\"Reload the pack names list, and restart the autopack code.\"\"\"\n        if not self.reload_pack_names():\n            return\n", expect="R4-restart"),
    Mutant("neutral: set algebra written with operators", PR, "        disk_nodes.difference_update(deleted_nodes)\n        disk_nodes.update(new_nodes)\n", "        disk_nodes = (disk_nodes - deleted_nodes) | new_nodes\n", neutral=True),
    Mutant("neutral: deleted/new computed with methods", PR, "        deleted_nodes = self._packs_at_load - current_nodes\n", "        deleted_nodes = self._packs_at_load.difference(current_nodes)\n", neutral=True),
]
