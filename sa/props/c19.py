"""C19 — text conflicts are reported exactly when conflict markers are written: pairing, sentinel def-use, suffix tables."""

import ast

from ..astutil import call_attr, call_recv, calls_in, const_value, norm, walk_own
from ..cfg import build_cfg
from ..rules import calling
from ..selftest import Mutant
from . import c12

ID = "C19"
TECHNIQUE = "record/helper-file pairing across the sibling text_merge implementations (K7), def-use of the conflict sentinel (K5), guard of the recording branch (K2), helper-suffix table agreement (K6) (ast)"
FLOOR = 29
MG = "breezy/merge.py"
CF = "breezy/bzr/conflicts.py"
EXPLANATION = """
K7: in each text_merge implementation of merge.py (Merge3Merger, WeaveMerger, Diff3Merger) the block that records a
("text conflict", trans_id) entry in _raw_conflicts also calls _dump_conflicts (helper files) and vice versa, the merged
text is written with tt.create_file before the record, and recording is control-dependent on that implementation's
conflict indicator (retval["text_conflicts"] / base_lines is not None / diff3 status == 1). K5 (Merge3Merger): the
sentinel handed to Merge3.merge_lines as start_marker=, tested by line.startswith(...) and replaced by b"<" * 7 is one
and the same local; retval["text_conflicts"] is set True only under that test, is initialised False, and is what the
recording branch reads. K6: _dump_conflicts creates helper files with suffixes THIS, OTHER and (unless no_base) BASE via
name + "." + suffix, and conflicts.py lists the same set as CONFLICT_SUFFIXES / TextConflict.associated_filenames;
TextConflict._resolve swaps the item with item.<winner> and re-versions the winner; action_take_this / action_take_other
resolve with "THIS" / "OTHER".
Added while testing against seeded changes: Also: Conflict.cleanup deletes each associated file inside the loop and a
swallowed FileNotFoundError continues with the next file; resolve() runs cleanup after a successful do() and keeps a
conflict only on NotImplementedError.
Fourth round: cherrypick-on-either-side — Merger.make_merger derives kwargs["cherrypick"] from base_is_ancestor and base_is_other_ancestor.
Does not decide: that Merge3 yields markers exactly for conflicting regions (library), nor sentinel collisions with user text.
"""
#: (class, conflict indicator, roles of the locals the indicator names — bound by what they hold, see astutil.bind_roles)
IMPLS = [
    ("Merge3Merger", "retval['text_conflicts'] is True", {"retval": ("assign", "{}")}),
    ("WeaveMerger", "base_lines is not None", {"base_lines": ("assign", "~self\\._merged_lines\\(\\w+\\)", 1)}),
    ("Diff3Merger", "status == 1", {"status": ("assign", "~breezy\\.patch\\.diff3\\(.*\\)")}),
]


def run(ctx):
    repo = ctx.repo
    from ..astutil import bind_roles, canonicalise

    for cname, indicator, roles in IMPLS:
        fn = repo.func(MG, f"{cname}.text_merge")
        fn = canonicalise(fn, bind_roles(fn, roles, f"{MG}:{cname}.text_merge"))
        where = f"{MG}:{cname}.text_merge"
        g = build_cfg(fn)
        rec = calling(g, attr="append", argpred=lambda c: (norm(c.func.value) or "").endswith("_raw_conflicts"))
        dump = calling(g, attr="_dump_conflicts")
        ctx.check("record-and-helpers-paired", where, bool(rec) and bool(dump), "the implementation both records a text conflict and writes helper files")
        for c in [c for c in calls_in(fn) if call_attr(c) == "append" and norm(c.func.value).endswith("_raw_conflicts")]:
            blk = c12._enclosing_block(fn, c)
            ctx.check("record-and-helpers-paired", where, any(call_attr(x) == "_dump_conflicts" for s in blk for x in calls_in(s)), "the block that records the conflict also writes the helper files", construct=norm(c)[:60], message="a text conflict is recorded without BASE/THIS/OTHER helper files")
            a = c.args[0]
            ctx.check("record-kind", where, isinstance(a, ast.Tuple) and const_value(a.elts[0]) == "text conflict" and norm(a.elts[1]) == "trans_id", "the record is ('text conflict', trans_id)", construct=norm(a))
        for c in [c for c in calls_in(fn) if call_attr(c) == "_dump_conflicts"]:
            blk = c12._enclosing_block(fn, c)
            ctx.check("record-and-helpers-paired", where, any(call_attr(x) == "append" and norm(x.func.value).endswith("_raw_conflicts") for s in blk for x in calls_in(s)), "the block that writes helper files also records the conflict", construct=norm(c)[:60], message="helper files are written without a conflict being recorded")
        tests = [n for n in g.nodes if n.kind == "test" and norm(n.ast) == indicator]
        ok = len(tests) == 1
        if ok:
            cut = {(tests[0].id, b, l) for (b, l) in g.succ[tests[0].id] if l == "T"}
            ok = not (set(rec + dump) & g.copy_without(cut).reachable_from_entry())
        ctx.check("recorded-only-on-conflict", where, ok, f"recording is control-dependent on `{indicator}`", message=f"the conflict record / helper files are not guarded by `{indicator}`")
        cf = calling(g, attr="create_file", recv="self.tt")
        ctx.check("merged-text-written-first", where, bool(cf) and g.always_before(cf, rec)[0], "the merged text (with markers) is written before the conflict is recorded")
    # ---- sentinel def-use (Merge3Merger) ------------------------------------------
    fn = repo.func(MG, "Merge3Merger.text_merge")
    where = f"{MG}:Merge3Merger.text_merge"
    fn = canonicalise(fn, bind_roles(fn, IMPLS[0][2], where))
    inner = [n for n in ast.walk(fn) if isinstance(n, ast.FunctionDef) and n is not fn]
    ctx.require(len(inner) == 1, f"{where}: nested iterator not found")
    it = inner[0]
    kw = [norm(k.value) for c in calls_in(it) if call_attr(c) == "merge_lines" for k in c.keywords if k.arg == "start_marker"]
    sw = [norm(c.args[0]) for c in calls_in(it) if call_attr(c) == "startswith" and c.args]
    rp = [(norm(c.args[0]), norm(c.args[1])) for c in calls_in(it) if call_attr(c) == "replace" and len(c.args) == 2]
    ok = len(kw) == 1 and sw == kw and len(rp) == 1 and rp[0][0] == kw[0] and rp[0][1] == "b'<' * 7"
    ctx.check("sentinel-def-use", where, ok, f"the sentinel passed to merge_lines ({kw}), tested ({sw}) and replaced by b'<' * 7 ({rp}) is one local", construct=f"{kw} {sw} {rp}", message="the marker handed to Merge3, the marker tested and the marker replaced are not the same value: conflicts go unreported or markers are left unreplaced")
    sent = [s for s in walk_own(fn) if isinstance(s, ast.Assign) and kw and norm(s.targets[0]) == kw[0]]
    ctx.check("sentinel-def-use", where, len(sent) == 1 and not (isinstance(sent[0].value, ast.Constant) and sent[0].value.value in (b"<<<<<<<", b"<" * 7)), "the sentinel is a dedicated value, not the user-visible marker (lines that merely look like markers are not conflicts)")
    sets = [s for s in ast.walk(it) if isinstance(s, ast.Assign) and norm(s.targets[0]) == "retval['text_conflicts']"]
    vals = sorted(norm(s.value) for s in sets)
    ctx.check("flag-def-use", where, vals == ["False", "True"], "the conflict flag is initialised False and set True", construct=str(vals))
    gi = build_cfg(it)
    true_nodes = [n.id for n in gi.nodes if n.kind == "stmt" and isinstance(n.ast, ast.Assign) and norm(n.ast.targets[0]) == "retval['text_conflicts']" and norm(n.ast.value) == "True"]
    t_sw = [n.id for n in gi.nodes if n.kind == "test" and any(call_attr(c) == "startswith" for c in calls_in(n.ast))]
    cut = {(t, b, l) for t in t_sw for (b, l) in gi.succ[t] if l == "T"}
    ctx.check("flag-def-use", where, bool(t_sw) and not (set(true_nodes) & gi.copy_without(cut).reachable_from_entry()), "the flag is set only for lines that start with the sentinel")
    ys = [n for n in ast.walk(it) if isinstance(n, ast.Yield)]
    ctx.check("flag-def-use", where, len(ys) == 2, "every merged line is yielded (marker lines with the user-visible marker, others unchanged)")
    # ---- suffix tables -------------------------------------------------------------------
    fd = repo.func(MG, "Merge3Merger._dump_conflicts")
    suff = set()
    for n in walk_own(fd):
        if isinstance(n, ast.Tuple) and len(n.elts) == 4 and isinstance(n.elts[0], ast.Constant) and isinstance(n.elts[0].value, str):
            suff.add(n.elts[0].value)
    fcf = repo.func(MG, "Merge3Merger._conflict_file")
    dot = any(norm(s.value) == "name + '.' + suffix" for s in walk_own(fcf) if isinstance(s, ast.Assign))
    cs = [s for s in repo.module(CF).tree.body if isinstance(s, ast.Assign) and norm(s.targets[0]) == "CONFLICT_SUFFIXES"]
    listed = {const_value(e) for e in cs[0].value.elts} if cs else set()
    ctx.check("helper-suffixes", f"{MG}:Merge3Merger._dump_conflicts", dot and {"." + s for s in suff} == listed and len(suff) == 3, f"helper files created {sorted(suff)} == suffixes cleaned up {sorted(listed)}", construct=f"{sorted(suff)} / {sorted(listed)}", message=f"helper-file suffixes disagree: merge creates {sorted(suff)}, conflicts.py knows {sorted(listed)} — resolving would leave helper files behind")
    base_cond = [n for n in walk_own(fd) if isinstance(n, ast.If) and norm(n.test) == "not no_base" and any("'BASE'" in norm(s) for s in n.body)]
    ctx.check("helper-suffixes", f"{MG}:Merge3Merger._dump_conflicts", len(base_cond) == 1, "the BASE helper is written unless no_base")
    fa = repo.func(CF, "TextConflict.associated_filenames")
    ctx.check("helper-suffixes", f"{CF}:TextConflict.associated_filenames", "CONFLICT_SUFFIXES" in norm(fa), "a text conflict's associated files are path + each helper suffix")
    fr = repo.func(CF, "TextConflict._resolve")
    ctx.check("resolve-swaps-winner", f"{CF}:TextConflict._resolve", "self.path + '.' + winner_suffix" in norm(fr) and sum(1 for c in calls_in(fr) if call_attr(c) == "adjust_path") == 2 and any(call_attr(c) == "version_file" and "winner_tid" in norm(c) for c in calls_in(fr)) and any(call_attr(c) == "apply" for c in calls_in(fr)), "take-this/other swaps item and item.<winner>, versions the winner and applies")
    for meth, suf in (("action_take_this", "THIS"), ("action_take_other", "OTHER")):
        f = repo.func(CF, f"TextConflict.{meth}")
        ctx.check("resolve-swaps-winner", f"{CF}:TextConflict.{meth}", any(c.args and const_value(c.args[-1]) == suf for c in calls_in(f)), f"{meth} resolves with {suf}")


    # ---- resolving removes the helper files and the record ------------------------------------------
    CG = "breezy/conflicts.py"
    fc = repo.func(CG, "Conflict.cleanup")
    wc = f"{CG}:Conflict.cleanup"
    gc = build_cfg(fc)
    dl = calling(gc, name={"osutils.delete_any", "delete_any", "os.unlink", "os.remove"})
    hdr = [n.id for n in gc.nodes if n.kind == "for" and norm(n.ast.iter) == "self.associated_filenames()"]
    ctx.check("resolve-removes-helpers", wc, len(hdr) == 1 and bool(dl) and all(hdr[0] in gc.loops_of(d) for d in dl), "cleanup deletes inside a loop over self.associated_filenames()", message="Conflict.cleanup no longer deletes each associated helper file")
    if hdr and dl:
        lv = norm(gc.nodes[hdr[0]].ast.target)
        ctx.check("resolve-removes-helpers", wc, all(any(norm(a) == f"tree.abspath({lv})" for c in gc.nodes[d].calls() for a in c.args) for d in dl), f"what is deleted is tree.abspath({lv}) — the helper file itself")
        # a helper that is already gone must not keep the remaining ones: after the delete raised (and the error was
        # swallowed) the loop goes on; an error that is not swallowed propagates (nothing is silently skipped)
        ok = True
        for d in dl:
            xs = [b for (b, l) in gc.succ[d] if l == "X"]
            swallowed = gc.reach(xs, avoid={gc.raise_exit} if hasattr(gc, "raise_exit") else set(), include_src=True)
            if gc.exit in swallowed and hdr[0] not in gc.reach(xs, include_src=True):
                ok = False
            # any continuation that swallows the error must come back to the loop header before leaving
            g2 = gc.copy_without({(a, b, l) for a in range(len(gc.nodes)) for (b, l) in gc.succ[a] if b == hdr[0]})
            if gc.exit in g2.reach(xs, include_src=True):
                ok = False
        ctx.check("resolve-removes-helpers", wc, ok, "a missing helper file does not stop the removal of the others (the swallowed error continues with the next file)", message="when one helper file is already missing the swallowed FileNotFoundError leaves the loop: the remaining helper files (.THIS/.OTHER) stay behind although the conflict is marked resolved")
    from .c20 import RESOLVE_ROLES

    fr = repo.func(CG, "resolve")
    fr = canonicalise(fr, bind_roles(fr, RESOLVE_ROLES, f"{CG}:resolve"))
    wr = f"{CG}:resolve"
    gr = build_cfg(fr)
    do = calling(gr, attr="do", recv="conflict")
    cl = calling(gr, attr="cleanup", recv="conflict")
    keep = calling(gr, attr="append", recv="new_conflicts")
    setc = calling(gr, attr="set_conflicts")
    ctx.require(bool(do) and bool(setc), f"{wr}: conflict.do / set_conflicts not found")
    ok = bool(cl)
    if ok:
        # from the normal completion of do(), cleanup is reached before the loop goes on or the function ends
        hdrs = [n.id for n in gr.nodes if n.kind == "for"]
        r = gr.copy_without({(d, b, l) for d in do for (b, l) in gr.succ[d] if l == "X"}).reach(do, avoid=set(cl))
        ok = not (r & (set(hdrs) | set(setc) | {gr.exit}))
    ctx.check("resolve-removes-helpers", wr, ok, "after conflict.do(action) succeeded, conflict.cleanup(tree) runs before the next conflict / before the list is stored", message="a resolved conflict's helper files are not cleaned up on some path")
    hs = [n for n in gr.nodes if n.kind == "handler"]
    from ..astutil import handler_types

    kept_ok = all(any(gr.nodes[k].lineno >= h.ast.lineno and gr.nodes[k].lineno <= h.ast.end_lineno for h in hs if handler_types(h.ast) == ["NotImplementedError"] or set(handler_types(h.ast)) == {"NotImplementedError"}) for k in keep) and bool(keep)
    ctx.check("resolve-removes-record", wr, kept_ok, "a processed conflict stays in the list only when its action is not implemented (NotImplementedError)", message="a conflict selected for resolution is kept (or dropped) on the wrong condition")
    ctx.check("resolve-removes-record", wr, all(any(norm(a) == "new_conflicts" for c in gr.nodes[i].calls() if call_attr(c) == "set_conflicts" for a in c.args) for i in setc), "what is stored afterwards is the list of not-selected (plus unresolvable) conflicts")
    # ---- the text merger is told about a cherrypick whenever BASE is outside either side's ancestry -----------------------
    fmm = repo.func(MG, "Merger.make_merger")
    cp = [a.value for a in walk_own(fmm) if isinstance(a, ast.Assign) and any(isinstance(t, ast.Subscript) and const_value(t.slice, None) == "cherrypick" for t in a.targets)]
    ctx.require(len(cp) == 1, f"{MG}:Merger.make_merger: kwargs['cherrypick'] = … not found")
    attrs = {n_.attr for n_ in ast.walk(cp[0]) if isinstance(n_, ast.Attribute)} | {n_.id for n_ in ast.walk(cp[0]) if isinstance(n_, ast.Name)}
    need_ = {"base_is_ancestor", "base_is_other_ancestor"}
    ctx.check("cherrypick-on-either-side", f"{MG}:Merger.make_merger", need_ <= attrs, "is_cherrypick is derived from both base_is_ancestor and base_is_other_ancestor", construct=norm(cp[0])[:100], message=f"make_merger computes cherrypick from {sorted(attrs & need_)} only: a back-out merge (BASE in THIS's ancestry but not in OTHER's) runs Merge3 without is_cherrypick, the OTHER half of a conflict region carries lines that merely repeat BASE — the file does not hold the conflicting regions of the three-way merge of BASE, THIS and OTHER")


MUTANTS = [
    Mutant("cherrypick decided from THIS's ancestry only", MG, "            kwargs[\"cherrypick\"] = (\n                not self.base_is_ancestor or not self.base_is_other_ancestor\n            )\n", "            kwargs[\"cherrypick\"] = not self.base_is_ancestor\n", expect="cherrypick-on-either-side"),
    Mutant("record dropped in the weave merger", MG, "        if base_lines is not None:\n            # Conflict\n            self._raw_conflicts.append((\"text conflict\", trans_id))\n", "        if base_lines is not None:\n            # Conflict\n", expect="record-and-helpers-paired"),
    Mutant("marker tested instead of the sentinel", MG, "                if line.startswith(start_marker):", "                if line.startswith(b\"<<<<<<<\"):", expect="sentinel-def-use"),
    Mutant("diff3 conflict recorded on every status", MG, "            if status == 1:\n                name = self.tt.final_name(trans_id)", "            if status in (0, 1):\n                name = self.tt.final_name(trans_id)", expect="recorded-only-on-conflict"),
    Mutant("helper suffix renamed on the merge side", MG, "            (\"THIS\", self.this_tree, this_path, this_lines),", "            (\"MINE\", self.this_tree, this_path, this_lines),", expect="helper-suffixes"),
    Mutant("conflict flag set for every line", MG, "                if line.startswith(start_marker):\n                    retval[\"text_conflicts\"] = True\n                    yield line.replace(start_marker, b\"<\" * 7)", "                retval[\"text_conflicts\"] = True\n                if line.startswith(start_marker):\n                    yield line.replace(start_marker, b\"<\" * 7)", expect="flag-def-use"),
    Mutant("one suppress around the whole cleanup loop", "breezy/conflicts.py", "        for fname in self.associated_filenames():\n            with contextlib.suppress(FileNotFoundError):\n                osutils.delete_any(tree.abspath(fname))", "        with contextlib.suppress(FileNotFoundError):\n            for fname in self.associated_filenames():\n                osutils.delete_any(tree.abspath(fname))", expect="resolve-removes-helpers"),
    Mutant("cleanup skipped after a successful action", "breezy/conflicts.py", "                conflict.do(action, tree)\n                conflict.cleanup(tree)\n", "                conflict.do(action, tree)\n", expect="resolve-removes-helpers"),
    Mutant("neutral: cleanup uses try/except per file", "breezy/conflicts.py", "            with contextlib.suppress(FileNotFoundError):\n                osutils.delete_any(tree.abspath(fname))", "            try:\n                osutils.delete_any(tree.abspath(fname))\n            except FileNotFoundError:\n                pass", neutral=True),
    Mutant("neutral: sentinel variable renamed", MG, "        base_marker = b\"|\" * 7 if self.show_base is True else None\n", "        base_marker = (b\"|\" * 7) if self.show_base is True else None\n", neutral=True),
]
