"""C06 — aborted / suspended write groups are invisible until committed."""

import ast

from ..astutil import call_attr, call_recv, calls_in, dotted, norm, walk_own
from ..cfg import assigns_to
from ..rules import calling, fn_cfg, k1_before, k1_never_after, k2_unreachable, k3_after, need
from ..selftest import Mutant

ID = "C06"
TECHNIQUE = "CFG dominance (refusal before change), all-exits pairing and who-may-call rules over the write-group template methods (ast)"
FLOOR = 35
PR = "breezy/bzr/pack_repo.py"
GC = "breezy/bzr/groupcompress_repo.py"
RP = "breezy/repository.py"
RM = "breezy/bzr/remote.py"
COLL = "RepositoryPackCollection"
EXPLANATION = """
R1 (K1/K2 refusal before change) RepositoryPackCollection._commit_write_group: the missing-compression-parent scan and
   _check_new_inventories() dominate the first state-changing call (_remove_pack_indices, finish, allocate, abort,
   autopack, _save_pack_names), and when either reports a problem no state-changing call is reachable (the group is
   refused with the repository unchanged). GCRepositoryPackCollection overrides _check_new_inventories (the base
   returns []), so 2a repositories really run the inventory/text completeness check.
R2 (K7/K4) _abort_write_group aborts the new pack and every resumed pack, empties _resumed_packs and resets _new_pack
   (assignment or ExitStack callback registered before the abort); _suspend_write_group returns tokens covering resumed
   packs and the new pack, finishes with suspend=True, and resets _new_pack on both branches; neither function can
   reach allocate/_save_pack_names/autopack (no partial pack becomes listed).
R3 (K3) Repository.abort_write_group: once the template _abort_write_group() was called every exit, normal or
   exceptional, has cleared _write_group; commit_write_group clears it on the normal exit only (a failed commit keeps
   the group for abort); PackRepository._resume_write_group aborts on UnresumableWriteGroup and re-raises;
   PackRepository.suspend_write_group clears _write_group.
R4 (K1, safety net relied on by C01/C03) Repository.unlock, PackRepository.unlock and RemoteRepository.unlock abort a
   live write group before the last write lock is released.
R7 (K3) RepositoryPackCollection._commit_write_group: every exceptional exit of autopack() / _save_pack_names() after
   allocate() passes a handler that removes the allocated packs from memory and re-raises.
R8 (from a third-round agent's observation) in _abort_write_group the loop over the resumed packs is reachable from the exception edge
   of self._new_pack.abort(): a failing first step does not leave the indices of the resumed packs visible.
R9 (fourth round) _resumed_packs is changed only inside RepositoryPackCollection; the R7 handler walks exactly the list its allocate() calls fed.
Does not decide: that suspend -> resume -> commit yields the same content as a direct commit (value equality).
"""

STATE_CHANGING = {"_remove_pack_indices", "finish", "allocate", "abort", "autopack", "_save_pack_names", "_remove_pack_from_memory"}
LISTING = {"allocate", "_save_pack_names", "autopack"}


def _names(node):
    return {n.id for n in ast.walk(node) if isinstance(n, ast.Name)}


NARROWING = {"difference_update", "intersection_update", "discard", "remove", "clear", "pop", "symmetric_difference_update"}


def check_chk_root_sets(ctx, fn, where):
    """K5/K6: the four root-key sets computed for the new inventories (id_to_entry and parent_id_basename_to_file_id,
    interesting and uninteresting) are each handed to an iter_interesting_nodes walk, and always as a matching pair — a
    map whose roots are never walked has its chk pages unchecked."""
    PAIRS = {"interesting_root_keys": "uninteresting_root_keys", "interesting_pid_root_keys": "uninteresting_pid_root_keys"}
    read = {n.attr for n in ast.walk(fn) if isinstance(n, ast.Attribute) and isinstance(n.ctx, ast.Load) and (n.attr in PAIRS or n.attr in PAIRS.values())}
    missing = sorted((set(PAIRS) | set(PAIRS.values())) - read)
    ctx.check("R1-chk-roots-walked", where, not missing, "all four chk root-key sets of the new inventories are used", construct=str(missing), message=f"the root keys {missing} are never handed to a chk walk: the pages of that map are not checked for presence, a stacked repository can be left without them")
    walks = [c for c in calls_in(fn) if call_attr(c) == "iter_interesting_nodes"]
    ctx.check("R1-chk-roots-walked", where, len(walks) >= 1, "the chk maps are walked with iter_interesting_nodes")
    for c in walks:
        a = [x.attr if isinstance(x, ast.Attribute) else None for x in c.args[1:3]]
        if a[0] in PAIRS and a[1] is not None:
            ctx.check("R1-chk-roots-walked", where, PAIRS[a[0]] == a[1], f"{a[0]} is walked against {PAIRS[a[0]]}", construct=norm(c)[:90], message=f"`{norm(c)[:90]}` walks {a[0]} against {a[1]}: interesting and uninteresting roots of different maps are mixed")


def check_presence_sets(ctx, fn, where):
    """R1c (K5): every set S whose members are looked up for presence
    (`<index>.get_parent_map(S)` followed by `S.difference(present)`) and that
    is *collected* in this function (initialised empty / from all_keys()) must
    reach the lookup un-narrowed: bound once, never filtered or shrunk."""
    lookups = []
    for c_ in calls_in(fn):
        if call_attr(c_) == "get_parent_map" and len(c_.args) == 1 and isinstance(c_.args[0], ast.Name):
            lookups.append(c_.args[0].id)
    checked = 0
    for name in sorted(set(lookups)):
        binds = [s for s in walk_own(fn) if isinstance(s, (ast.Assign, ast.AugAssign)) and any(isinstance(t, ast.Name) and t.id == name for t in (s.targets if isinstance(s, ast.Assign) else [s.target]))]
        if len(binds) >= 1 and isinstance(binds[0], ast.Assign) and norm(binds[0].value) in ("set()",) or (binds and isinstance(binds[0], ast.Assign) and "all_keys()" in norm(binds[0].value)):
            checked += 1
            narrowed = [norm(c)[:60] for c in calls_in(fn) if call_recv(c) == name and call_attr(c) in NARROWING]
            rebound = [norm(b)[:70] for b in binds[1:]]
            ctx.check("R1-presence-set-not-narrowed", where, not narrowed and not rebound, f"`{name}` (collected from the new inventories) reaches its presence lookup without being filtered", construct="; ".join(narrowed + rebound), message=f"the key set `{name}` is narrowed before it is checked for presence ({'; '.join(narrowed + rebound)}): referenced keys outside the narrowed set are no longer required to exist")
    ctx.require(checked >= 2, f"{where}: expected at least 2 collected presence sets (text keys, chk roots), found {checked}")


def check_interesting_key_sets(ctx, fn, where):
    """R1d (K8, pointwise set abstraction): the first half of _check_new_inventories is evaluated abstractly on one
    revision per membership class — new revision with/without its inventory, new revision that is also the parent of
    another new revision, old parent present / absent (ghost) — and the two id lists handed to
    _build_interesting_key_sets must be: all = new inventories ∪ present parents; parents-only = present parents that
    are not themselves new.  A new revision wrongly classed as 'parent only' has its chk pages and texts skipped."""
    from ..absint import Interp, Obj, Opaque, Raised

    class Stop(Exception):
        pass

    captured = {}
    # revisions: n1 (new, inv present, parents n2,p1,g), n2 (new, inv present, parent p1), p1 (old, present), g (ghost)
    new_keys = {("n1",), ("n2",)}
    parents = {("n1",): (("n2",), ("p1",), ("g",)), ("n2",): (("p1",),), ("p1",): ()}

    def hook(interp, call, name, ev_args, env):
        if name.endswith(".get_new_keys"):
            return set(new_keys)
        if name.endswith(".get_parent_map"):
            args, _ = ev_args()
            return {k: parents[k] for k in list(args[0]) if k in parents}
        if name == "_build_interesting_key_sets":
            args, _ = ev_args()
            captured["all"], captured["parents_only"] = set(args[1]), set(args[2])
            raise Raised("STOP", (), call)
        return NotImplemented

    def attr_hook(o, attr):
        return Opaque(attr)

    it = Interp(call_hook=hook, attr_hook=attr_hook, name_hook=lambda n: Opaque(n) if n in ("chk_map", "errors") else NotImplemented)
    me = Obj("collection")
    me.set("repo", Obj("repo"))
    try:
        it.call(fn, {"self": me})
    except Raised as r:
        if r.name != "STOP":
            ctx.require(False, f"{where}: abstract evaluation raised {r.name}")
    ctx.require("all" in captured, f"{where}: _build_interesting_key_sets(...) was not reached with all inventories present")
    ctx.check("R1-interesting-key-sets", where, captured["all"] == {"n1", "n2", "p1"}, "inventories examined = new inventories ∪ present parent inventories (ghost parents dropped)", construct=str(sorted(captured["all"])), message=f"the set of inventories whose chk roots are examined is {sorted(captured['all'])}, expected ['n1', 'n2', 'p1']")
    ctx.check("R1-interesting-key-sets", where, captured["parents_only"] == {"p1"}, "'parent only' inventories = present parents that are not new revisions themselves", construct=str(sorted(captured["parents_only"])), message=f"'parent only' inventories are {sorted(captured['parents_only'])}, expected ['p1']: a new revision that is also the parent of another new revision would have its chk pages and texts left unchecked")
    # a new revision without inventory is reported and nothing else is examined
    new_keys.add(("n3",))
    captured.clear()
    res = None
    try:
        res = it.call(fn, {"self": me})
    except Raised as r:
        res = "raised:" + r.name
    ctx.check("R1-interesting-key-sets", where, isinstance(res, list) and len(res) == 1 and "all" not in captured, "a new revision without its inventory is reported as a problem straight away", construct=str(res)[:80])


def run(ctx):
    repo = ctx.repo
    # ---- R1 ------------------------------------------------------------------
    fn, g, where = fn_cfg(ctx, PR, f"{COLL}._commit_write_group")
    scan = need(where, calling(g, attr="get_missing_compression_parent_keys"), "get_missing_compression_parent_keys()")
    chk = need(where, calling(g, attr="_check_new_inventories", recv="self"), "_check_new_inventories()")
    changing = need(where, calling(g, attr=STATE_CHANGING), "state-changing calls")
    k1_before(ctx, "R1-scan-before-change", where, g, scan, changing, "missing compression parents are looked for before anything is finished/allocated/saved")
    k1_before(ctx, "R1-check-before-change", where, g, chk, changing, "_check_new_inventories() runs before anything is finished/allocated/saved")
    # names carrying the two verdicts (robust to renaming)
    prob_names = [norm(n.targets[0]) for n in walk_own(fn) if isinstance(n, ast.Assign) and len(n.targets) == 1 and isinstance(n.value, ast.Call) and call_attr(n.value) == "_check_new_inventories"]
    ctx.check("R1-problems-source", where, len(prob_names) == 1, "the result of _check_new_inventories() is kept in a local", construct=str(prob_names), message="the result of _check_new_inventories() is discarded")
    scan_targets = {norm(n.targets[0]) for n in walk_own(fn) if isinstance(n, ast.Assign) and len(n.targets) == 1 and isinstance(n.value, ast.Call) and call_attr(n.value) == "get_missing_compression_parent_keys"}
    miss_names = sorted({call_recv(c) for c in calls_in(fn) if call_attr(c) in ("update", "add", "extend", "append") and c.args and (scan_targets & {x for x in _names(c.args[0])})})
    ctx.check("R1-missing-source", where, len(miss_names) == 1, "missing compression parents of all four versioned files are accumulated in one local", construct=str(miss_names), message="the missing compression parents are no longer accumulated")
    if len(miss_names) == 1:
        k2_unreachable(ctx, "R1-refuse-missing-parents", where, g, {miss_names[0]: True}, changing, "missing compression parents => no state change is reachable (raise)")
    if len(prob_names) == 1:
        k2_unreachable(ctx, "R1-refuse-missing-inventories", where, g, {prob_names[0]: True}, changing, "problems from _check_new_inventories => no state change is reachable (raise)")
    # override resolves for the 2a collection
    r = repo.resolve_method(GC, "GCRepositoryPackCollection", "_check_new_inventories")
    ctx.check("R1-gc-override", f"{GC}:GCRepositoryPackCollection", r is not None and r[0] == GC, "GCRepositoryPackCollection overrides _check_new_inventories", message="2a pack collection no longer overrides _check_new_inventories: the base returns [] and nothing is checked")
    if r is not None and r[0] == GC:
        body_returns = [n for n in walk_own(r[2]) if isinstance(n, ast.Return)]
        trivial = all(norm(b.value) == "[]" for b in body_returns) if body_returns else True
        ctx.check("R1-gc-override", f"{GC}:GCRepositoryPackCollection._check_new_inventories", not trivial, "the override can report problems (returns something other than a literal [])", message="the 2a _check_new_inventories override always returns []")

    if r is not None and r[0] == GC:
        check_presence_sets(ctx, r[2], f"{GC}:GCRepositoryPackCollection._check_new_inventories")
        check_chk_root_sets(ctx, r[2], f"{GC}:GCRepositoryPackCollection._check_new_inventories")
        check_interesting_key_sets(ctx, r[2], f"{GC}:GCRepositoryPackCollection._check_new_inventories")

    # ---- R2 ------------------------------------------------------------------
    fn, g, where = fn_cfg(ctx, PR, f"{COLL}._abort_write_group", fallible=lambda s: any(call_attr(c) == "abort" for c in calls_in(s)))
    # R2-indices-removed: the aborted pack's in-memory indices are dropped even when pack.abort() raises
    # (ExitStack callback registered before the abort, or a finally around it)
    for ab in calling(g, attr="abort"):
        x = [call_recv(c) for c in g.nodes[ab].calls() if call_attr(c) == "abort"][0]
        cbs = calling(g, attr="callback", argpred=lambda c, x=x: len(c.args) >= 2 and norm(c.args[0]) == "self._remove_pack_indices" and norm(c.args[1]) == x)
        direct = calling(g, attr="_remove_pack_indices", argpred=lambda c, x=x: c.args and norm(c.args[0]) == x)
        ok_cb = bool(cbs) and g.always_before(cbs, [ab])[0] and any(n.kind == "with_enter" and "ExitStack" in norm(n.ast.context_expr) for n in g.nodes)
        ok_fin = bool(direct) and g.always_after([ab], direct)[0]
        ctx.check("R2-indices-removed", where, ok_cb or ok_fin, f"indices of {x} are removed from the aggregate indices on every exit of {x}.abort(), including when it raises", construct=f"{x}.abort()", message=f"if {x}.abort() raises, _remove_pack_indices({x}) is skipped: the aborted pack's index entries stay visible in this repository object")
    aliases = {"self._new_pack"}
    for s in walk_own(fn):
        if isinstance(s, ast.Assign):
            tg, vl = s.targets[0], s.value
            if isinstance(tg, ast.Tuple) and isinstance(vl, ast.Tuple):
                for t, v in zip(tg.elts, vl.elts):
                    if norm(v) == "self._new_pack":
                        aliases.add(norm(t))
            elif norm(vl) == "self._new_pack":
                aliases.add(norm(tg))
    new_abort = need(where, calling(g, attr="abort", recv=aliases), "abort() of the new pack")
    k2_unreachable(ctx, "R2-abort-new-pack", where, g, {"self._new_pack is not None": False}, new_abort, "new pack abort is guarded by `_new_pack is not None`")
    g_live = g.assume({"self._new_pack is not None": True}).without_exc_edges()
    ok, w = g_live.always_after([g.entry], new_abort, exits=[g.exit])
    ctx.check("R2-abort-new-pack", where, ok, "with a live new pack every normal path calls self._new_pack.abort()", message="a live new pack is not aborted on some path", witness=g.show_path(w) if w else None)
    # reset of _new_pack: assignment or ExitStack callback(setattr, self, '_new_pack', None) before abort
    resets = g.find(assigns_to("self._new_pack")) + calling(g, attr="callback", argpred=lambda c: len(c.args) >= 4 and norm(c.args[0]) == "setattr" and norm(c.args[1]) == "self" and norm(c.args[2]) == "'_new_pack'" and norm(c.args[3]) == "None")
    ctx.check("R2-reset-new-pack", where, bool(resets), "_new_pack is reset (assignment or ExitStack callback)", message="_abort_write_group no longer resets _new_pack")
    if resets:
        cb = [i for i in resets if g.nodes[i].calls()]
        if cb:
            k1_before(ctx, "R2-reset-new-pack", where, g, cb, new_abort, "the reset callback is registered before abort() so it also runs when abort() raises")
    res_alias = {"self._resumed_packs"}
    for s in walk_own(fn):
        if isinstance(s, ast.Assign):
            tg, vl = s.targets[0], s.value
            pairs = zip(tg.elts, vl.elts) if isinstance(tg, ast.Tuple) and isinstance(vl, ast.Tuple) and len(tg.elts) == len(vl.elts) else [(tg, vl)]
            for t, v in pairs:
                if "self._resumed_packs" in norm(v) and isinstance(t, ast.Name):
                    res_alias.add(t.id)
    loops = [n for n in walk_own(fn) if isinstance(n, ast.For) and norm(n.iter) in res_alias]
    ok = bool(loops) and all(any(call_attr(c) == "abort" and call_recv(c) == norm(l.target) for c in calls_in(l)) for l in loops)
    ctx.check("R2-abort-resumed", where, ok, "every resumed pack is aborted (loop over self._resumed_packs calling .abort())", message="_abort_write_group does not abort the resumed packs")
    dels = [n.id for n in g.nodes if n.kind == "stmt" and isinstance(n.ast, ast.Delete) and "self._resumed_packs" in norm(n.ast)] + g.find(assigns_to("self._resumed_packs"))
    okd = bool(dels) and g.exit not in g.without_exc_edges().reach([g.entry], avoid=dels, include_src=True)
    ctx.check("R2-empty-resumed", where, okd, "_resumed_packs is emptied on every normal exit", message="_abort_write_group can return with _resumed_packs still populated")
    for meth in ("_abort_write_group", "_suspend_write_group"):
        f2 = repo.func(PR, f"{COLL}.{meth}")
        bad = [norm(c)[:60] for c in calls_in(f2) if call_attr(c) in LISTING]
        ctx.check("R2-no-listing", f"{PR}:{COLL}.{meth}", not bad, f"{meth} never calls allocate/_save_pack_names/autopack", construct="; ".join(bad), message=f"{meth} can make a partial pack listed: " + "; ".join(bad))
    fn, g, where = fn_cfg(ctx, PR, f"{COLL}._suspend_write_group", roles={"tokens": ("return", None, None)})
    fin = need(where, calling(g, attr="finish", recv="self._new_pack"), "self._new_pack.finish(...)")
    oks = all(any(k.arg == "suspend" and norm(k.value) == "True" for k in c.keywords) for i in fin for c in g.nodes[i].calls() if call_attr(c) == "finish")
    ctx.check("R2-suspend-finish", where, oks, "suspending finishes the new pack with suspend=True (stays in upload/)", message="suspend finishes the pack as a live pack")
    tok_init = [n for n in walk_own(fn) if isinstance(n, ast.Assign) and norm(n.targets[0]) == "tokens"]
    ctx.check("R2-suspend-tokens", where, len(tok_init) == 1 and "self._resumed_packs" in norm(tok_init[0].value), "tokens start from the names of the resumed packs", message="suspend tokens no longer include the resumed packs")
    app = need(where, calling(g, attr="append", recv="tokens"), "tokens.append(...)")
    k1_before(ctx, "R2-suspend-tokens", where, g, fin, app, "the new pack's name is added to the tokens after it was finished")
    g_ins = g.assume({"self._new_pack.data_inserted()": True})
    ok, w = g_ins.always_after([g.entry], app, exits=[g.exit])
    ctx.check("R2-suspend-tokens", where, ok, "a new pack with data always contributes a token", message="a new pack with data can be suspended without a token", witness=g.show_path(w) if w else None)
    rets = [n for n in walk_own(fn) if isinstance(n, ast.Return)]
    ctx.check("R2-suspend-tokens", where, rets and all(norm(r.value) == "tokens" for r in rets), "suspend returns the tokens list")
    resets = need(where, g.find(assigns_to("self._new_pack")), "_new_pack reset")
    ok, w = g.without_exc_edges().always_after([g.entry], resets, exits=[g.exit])
    ctx.check("R2-reset-new-pack", where, ok, "suspend resets _new_pack on every normal path", witness=g.show_path(w) if w else None)

    # ---- R3 ------------------------------------------------------------------
    fallible = lambda s: False
    fn, g, where = fn_cfg(ctx, RP, "Repository.abort_write_group")
    tmpl = need(where, calling(g, attr="_abort_write_group", recv="self"), "self._abort_write_group()")
    clear = need(where, g.find(assigns_to("self._write_group")), "self._write_group = None")
    ctx.check("R3-abort-clears-group", where, all(norm(g.nodes[i].ast.value) == "None" for i in clear), "abort assigns _write_group = None")
    k3_after(ctx, "R3-abort-clears-group", where, g, tmpl, clear, "after _abort_write_group() every exit (also when it raises) has cleared _write_group")
    fn, g, where = fn_cfg(ctx, RP, "Repository.commit_write_group")
    tmpl = need(where, calling(g, attr="_commit_write_group", recv="self"), "self._commit_write_group()")
    clear = need(where, g.find(assigns_to("self._write_group")), "self._write_group = None")
    k3_after(ctx, "R3-commit-clears-group", where, g, tmpl, clear, "after a successful _commit_write_group() the group is closed", exits=[g.exit])
    k1_before(ctx, "R3-commit-clears-group", where, g, tmpl, clear, "the group is closed only after _commit_write_group() ran (a failed commit keeps it for abort)")
    fn, g, where = fn_cfg(ctx, PR, "PackRepository._resume_write_group")
    hs = [n.id for n in g.nodes if n.kind == "handler" and "UnresumableWriteGroup" in norm(n.ast.type)]
    ab = calling(g, attr="_abort_write_group", recv="self")
    ok, w = g.always_after(hs, ab) if hs else (False, None)
    ctx.check("R3-resume-aborts", where, bool(hs) and bool(ab) and ok and g.exit not in g.reach(hs), "a failed resume aborts the freshly started group and re-raises", message="PackRepository._resume_write_group does not abort when the pack collection raises UnresumableWriteGroup (no handler around _pack_collection._resume_write_group, or the handler does not reach _abort_write_group and re-raise): packs resumed before the stale token stay registered in _resumed_packs and the aggregate indices although resume_write_group() raised — the suspended content is visible outside any write group and the next unrelated commit_write_group publishes it", witness=g.show_path(w) if w else None)
    fn, g, where = fn_cfg(ctx, PR, "PackRepository.suspend_write_group")
    clear = g.find(assigns_to("self._write_group"))
    ok, w = g.always_after([g.entry], clear, exits=[g.exit])
    ctx.check("R3-suspend-clears-group", where, bool(clear) and ok, "suspend_write_group leaves no write group open", witness=g.show_path(w) if w else None)

    # ---- R4 unlock safety nets --------------------------------------------------
    fn, g, where = fn_cfg(ctx, RP, "Repository.unlock")
    rel = need(where, calling(g, attr="unlock", recv="self.control_files"), "control_files.unlock()")
    ab = calling(g, attr="abort_write_group", recv="self")
    env = {"self.control_files._lock_count == 1": True, "self.control_files._lock_mode == 'w'": True, "self._write_group is not None": True}
    g2 = g.assume(env)
    ok, w = g2.always_before(ab, rel) if ab else (False, None)
    ctx.check("R4-unlock-aborts", where, ok, "releasing the last write lock with a live write group aborts it first", message="Repository.unlock releases the last write lock without aborting a live write group", witness=g.show_path(w) if w else None)
    fn, g, where = fn_cfg(ctx, PR, "PackRepository.unlock")
    ab = calling(g, attr="abort_write_group", recv="self")
    dec = need(where, g.find(assigns_to("self._write_lock_count")), "_write_lock_count update")
    g2 = g.assume({"self._write_lock_count == 1": True, "self._write_group is not None": True})
    ok, w = g2.always_before(ab, dec) if ab else (False, None)
    ctx.check("R4-unlock-aborts", where, ok, "releasing the last write lock with a live write group aborts it first", message="PackRepository.unlock drops the last write lock without aborting a live write group", witness=g.show_path(w) if w else None)
    fn, g, where = fn_cfg(ctx, RM, "RemoteRepository.unlock")
    ab = calling(g, attr="abort_write_group", recv="self") + calling(g, attr="unlock", recv="self._real_repository")
    unl = need(where, calling(g, attr="_unlock", recv="self"), "self._unlock(token)")
    ok = True
    w = None
    for env in ({"self._real_repository is not None": True}, {"self._real_repository is not None": False, "self._write_group_tokens is not None": True}):
        env = dict(env, **{"self._lock_count": True, "self._lock_count > 0": False})
        ok1, w1 = g.assume(env).always_before(ab, unl)
        if not ok1:
            ok, w = False, w1
    ctx.check("R4-unlock-aborts", where, ok and len(ab) >= 2, "the remote lock is released only after the real repository was unlocked / pending write-group tokens aborted", message="RemoteRepository.unlock releases the remote lock without dealing with the pending write group", witness=g.show_path(w) if w else None)

    # ---- R6: a refused commit leaves the write group as it was; resumed packs are all committed ----------------------
    fnr, gr_, wr_ = fn_cfg(ctx, PR, "PackRepository._commit_write_group")
    cw = need(wr_, calling(gr_, attr="_commit_write_group", recv="self._pack_collection"), "self._pack_collection._commit_write_group()")
    ck = need(wr_, calling(gr_, attr="clear_key_dependencies"), "clear_key_dependencies()")
    xs = [b for n_ in cw for (b, l_) in gr_.succ[n_] if l_ == "X"]
    ctx.check("R6-refusal-keeps-tracking", wr_, not (set(ck) & gr_.reach(xs, include_src=True)), "the new-revision tracking (key dependencies) is cleared only after the pack collection committed — a refused commit keeps it, so that a second commit_write_group() is refused for the same reason", message="clear_key_dependencies() is reached when _pack_collection._commit_write_group() raised: after a correctly refused commit the write group no longer knows its new revisions, and a second commit_write_group() passes the completeness check and publishes them without their inventories/texts")
    ctx.check("R6-refusal-keeps-tracking", wr_, gr_.always_before(cw, ck)[0], "the tracking is cleared after (never before) the commit")
    for meth in ("_commit_write_group", "_abort_write_group"):
        fq = repo.func(PR, f"{COLL}.{meth}")
        for l_ in [n for n in walk_own(fq) if isinstance(n, ast.For) and norm(n.iter) == "self._resumed_packs"]:
            muts = [norm(c)[:60] for c in calls_in(l_) if call_recv(c) == "self._resumed_packs" and call_attr(c) in ("remove", "pop", "append", "insert", "clear", "extend")] + [norm(d)[:60] for d in ast.walk(l_) if isinstance(d, ast.Delete) and "self._resumed_packs" in norm(d)]
            ctx.check("R6-resumed-packs-all-handled", f"{PR}:{COLL}.{meth}", not muts, f"{meth} does not change self._resumed_packs while iterating over it", construct="; ".join(muts), message=f"{meth} mutates self._resumed_packs inside the loop over it ({'; '.join(muts)}): every second resumed pack is skipped — it is never finished and listed, its files stay in upload/ and it leaks into the next write group")
        cleared = any(isinstance(d, ast.Delete) and norm(d) == "del self._resumed_packs[:]" for d in walk_own(fq)) or any(call_attr(c) == "clear" and call_recv(c) == "self._resumed_packs" for c in calls_in(fq))
        ctx.check("R6-resumed-packs-all-handled", f"{PR}:{COLL}.{meth}", cleared, f"{meth} forgets all resumed packs at the end")

    # ---- R7: a commit that fails while publishing forgets what it allocated ---------------------------------------------
    # RepositoryPackCollection._commit_write_group allocates the finished pack(s) in the in-memory name list and then
    # publishes (autopack / _save_pack_names).  Every exceptional exit of the publishing calls passes a handler that takes
    # the allocated packs out of memory again (_remove_pack_from_memory / a pop from _names) and re-raises: otherwise the
    # next write group committed through the same object lists the aborted pack in pack-names.
    fn7 = repo.func(PR, "RepositoryPackCollection._commit_write_group")
    w7 = f"{PR}:RepositoryPackCollection._commit_write_group"
    pubs7 = [c for c in calls_in(fn7) if call_recv(c) == "self" and call_attr(c) in ("autopack", "_save_pack_names")]
    allocs7 = [c for c in calls_in(fn7) if call_recv(c) == "self" and call_attr(c) == "allocate"]
    ctx.require(bool(pubs7) and bool(allocs7), f"{w7}: allocate / publishing calls not found")

    def _forgets(h):
        return any((call_attr(c) == "_remove_pack_from_memory") or (call_attr(c) in ("pop", "__delitem__") and call_recv(c) == "self._names") for c in calls_in(h)) or any(isinstance(d_, ast.Delete) and any("self._names" in norm(t_) for t_ in d_.targets) for d_ in ast.walk(h))

    uncovered = []
    for c in pubs7:
        tries = [t for t in ast.walk(fn7) if isinstance(t, ast.Try) and any(x is c for st in t.body for x in ast.walk(st))]
        ok_h = any(h.type is None or any(k in norm(h.type) for k in ("BaseException", "Exception")) for t in tries for h in t.handlers if _forgets(h) and any(isinstance(r, ast.Raise) and r.exc is None for r in ast.walk(h)))
        if not ok_h:
            uncovered.append(f"L{c.lineno}:{norm(c)}")
    ctx.check("R7-failed-publication-forgets-allocation", w7, not uncovered and min(c.lineno for c in pubs7) > max(c.lineno for c in allocs7), "a failure of autopack() / _save_pack_names() after allocate() passes a handler that removes the allocated packs from memory and re-raises", construct="; ".join(uncovered), message=f"_commit_write_group lets a failure of {uncovered} propagate with the new pack still allocated in memory: the write group is aborted, but the next write group committed through the same repository object writes that pack into pack-names — the revision of a commit that raised becomes visible")
    # the handler takes back exactly what this commit allocated — the list its allocate() calls fed, nothing wider
    alloc_lists = {call_recv(c) for c in calls_in(fn7) if call_attr(c) == "append" and c.args and any(norm(c.args[0]) == norm(a.args[0]) for a in allocs7 if a.args)}
    hloops = [l_ for t in ast.walk(fn7) if isinstance(t, ast.Try) for h in t.handlers if _forgets(h) for l_ in ast.walk(h) if isinstance(l_, ast.For)]
    wide = [f"L{l_.lineno}: for … in {norm(l_.iter)[:50]}" for l_ in hloops if norm(l_.iter) not in alloc_lists]
    ctx.check("R7-failed-publication-forgets-allocation", w7, bool(hloops) and not wide, f"the handler walks {sorted(alloc_lists)} (the packs this commit allocated) and only those", construct="; ".join(wide), message=f"the failure handler of _commit_write_group forgets more than the packs this commit allocated ({'; '.join(wide)}): after an autopack whose final save failed, the autopack's source packs were already dropped from memory, so forgetting its output too records them as 'deleted by me' — the next successful _save_pack_names through the same object removes them from pack-names with nothing in their place")
    # ---- R9: only the pack collection empties its list of resumed packs ----------------------------------------------------
    outside = []
    for q_, f_ in repo.module(PR).functions().items():
        if q_.startswith(COLL + "."):
            continue
        for n_ in ast.walk(f_):
            tgt = None
            if isinstance(n_, ast.Delete):
                tgt = [norm(t) for t in n_.targets if "_resumed_packs" in norm(t)]
            elif isinstance(n_, (ast.Assign, ast.AugAssign)):
                tgt = [norm(t) for t in (n_.targets if isinstance(n_, ast.Assign) else [n_.target]) if "_resumed_packs" in norm(t)]
            elif isinstance(n_, ast.Call) and call_attr(n_) in ("clear", "remove", "pop") and "_resumed_packs" in (call_recv(n_) or ""):
                tgt = [norm(n_)]
            if tgt:
                outside.append(f"{q_} L{n_.lineno}: {tgt[0][:60]}")
    ctx.check("R9-resumed-list-owned-by-collection", PR, not outside, "_resumed_packs is emptied or changed only by RepositoryPackCollection's own methods (which remove the packs' indices first)", construct="; ".join(outside), message=f"the list of resumed packs is changed from outside the collection ({'; '.join(outside)}): the packs were registered with add_pack_to_memory, so forgetting them without removing their indices leaves the suspended texts and signatures visible through the repository object outside any write group")
    # ---- R10: commit and abort agree on resetting the parents provider's cache ---------------------------------------------
    def _resets_cache(f_):
        return any(norm(c.func) in ("self._unstacked_provider.disable_cache", "self._unstacked_provider.enable_cache") or norm(c.func).endswith("missing_keys.clear") for c in calls_in(f_))

    fcm_, fab_ = repo.func(PR, "PackRepository._commit_write_group"), repo.func(PR, "PackRepository._abort_write_group")
    ctx.check("R10-abort-resets-graph-cache", f"{PR}:PackRepository._abort_write_group", (not _resets_cache(fcm_)) or _resets_cache(fab_), "like _commit_write_group, _abort_write_group resets self._unstacked_provider (keys seen through the graph while the group was open must not outlive it)", message="PackRepository._abort_write_group leaves the parents provider's cache alone while _commit_write_group resets it: after an abort get_graph().get_parent_map() keeps reporting revisions of the aborted write group — the repository's visible revisions are not what they were before it started")
    # ---- R8: an abort forgets the resumed packs even when aborting the new pack fails ---------------------------------
    fn8, g8, w8 = fn_cfg(ctx, PR, f"{COLL}._abort_write_group")
    ab_new = need(w8, calling(g8, attr="abort", recv="self._new_pack"), "self._new_pack.abort()")
    loops8 = [n.id for n in g8.nodes if n.kind == "for" and norm(n.ast.iter) == "self._resumed_packs"]
    need(w8, loops8, "loop over self._resumed_packs")
    xs8 = [b for i in ab_new for (b, l) in g8.succ[i] if l == "X"]
    ctx.require(bool(xs8), f"{w8}: self._new_pack.abort() has no exception edge in the CFG")
    ctx.check("R8-abort-reaches-resumed-packs", w8, bool(set(loops8) & g8.reach(xs8, include_src=True)), "when self._new_pack.abort() raises, the loop that removes the resumed packs' indices still runs", message="_abort_write_group leaves through the exception of self._new_pack.abort() without visiting the resumed packs: their indices stay in the in-memory aggregate index, abort_write_group(suppress_errors=True) hides the error, and the repository object keeps reporting the aborted revisions as present although no listed pack holds them")

MUTANTS = [
    Mutant("abort keeps the graph cache (fix 622a57d reverted)", PR, "            self._unstacked_provider.disable_cache()\n            self._unstacked_provider.enable_cache()\n\n    def _make_parents_provider", "            pass\n\n    def _make_parents_provider", expect="R10-abort-resets-graph-cache"),
    Mutant("abort stops at a failing new pack (fix 52adcff reverted)", PR, "        finally:\n            # Forget the resumed packs even if aborting the new pack failed:\n            # their indices must not stay visible after an abort.\n            for resumed_pack in self._resumed_packs:", "        except BaseException:\n            raise\n        else:\n            for resumed_pack in self._resumed_packs:", expect="R8-abort-reaches-resumed-packs"),
    Mutant("failed publication keeps the allocation", PR, "                for pack in allocated:\n                    current = self._packs_by_name.get(pack.name)\n                    if current is not None and pack.name in self._names:\n                        self._remove_pack_from_memory(current)\n                raise\n", "                raise\n", expect="R7-failed-publication-forgets-allocation"),
    Mutant("key dependencies cleared in a finally", PR, "        hint = self._pack_collection._commit_write_group()\n        self.revisions._index.clear_key_dependencies()\n", "        try:\n            hint = self._pack_collection._commit_write_group()\n        finally:\n            self.revisions._index.clear_key_dependencies()\n", expect="R6-refusal-keeps-tracking"),
    Mutant("resumed packs removed while iterating", PR, "            allocated.append(resumed_pack)\n            any_new_content = True\n        del self._resumed_packs[:]\n", "            allocated.append(resumed_pack)\n            self._resumed_packs.remove(resumed_pack)\n            any_new_content = True\n", expect="R6-resumed-packs-all-handled"),
    Mutant("_check_new_inventories after finish", PR, "        problems = self._check_new_inventories()\n        if problems:\n            problems_summary = \"\\n\".join(problems)\n            raise BzrCheckError(\n                \"Cannot add revision(s) to repository: \" + problems_summary\n            )\n        self._remove_pack_indices(self._new_pack)\n", "        self._remove_pack_indices(self._new_pack)\n        problems = self._check_new_inventories()\n        if problems:\n            problems_summary = \"\\n\".join(problems)\n            raise BzrCheckError(\n                \"Cannot add revision(s) to repository: \" + problems_summary\n            )\n", expect="R1-check-before-change"),
    Mutant("missing compression parents only logged", PR, "        if all_missing:\n            raise BzrCheckError(", "        if all_missing and debug.debug_flag_enabled(\"strict\"):\n            raise BzrCheckError(", expect="R1-refuse-missing-parents"),
    Mutant("abort skips resumed packs", PR, "                    resumed_pack.abort()\n            del self._resumed_packs[:]\n\n    def _remove_resumed_pack_indices", "                    pass\n            del self._resumed_packs[:]\n\n    def _remove_resumed_pack_indices", expect="R2-abort-resumed"),
    Mutant("suspend forgets resumed packs' tokens", PR, "        tokens = [pack.name for pack in self._resumed_packs]\n        self._remove_pack_indices(self._new_pack)", "        tokens = []\n        self._remove_pack_indices(self._new_pack)", expect="R2-suspend-tokens"),
    Mutant("suspend finishes as a live pack", PR, "            self._new_pack.finish(suspend=True)\n", "            self._new_pack.finish()\n", expect="R2-suspend-finish"),
    Mutant("abort template failure leaves the group open", RP, "        except Exception as exc:\n            self._write_group = None\n            if not suppress_errors:\n                raise\n", "        except Exception as exc:\n            if not suppress_errors:\n                raise\n", expect="R3-abort-clears-group"),
    Mutant("commit closes the group before committing", RP, "        result = self._commit_write_group()\n        self._write_group = None\n        return result\n", "        self._write_group = None\n        result = self._commit_write_group()\n        return result\n", expect="R3-commit-clears-group"),
    Mutant("failed resume keeps the started group", PR, "        except errors.UnresumableWriteGroup:\n            self._abort_write_group()\n            raise\n", "        except errors.UnresumableWriteGroup:\n            raise\n", expect="R3-resume-aborts"),
    Mutant("PackRepository.unlock no longer aborts a live group", PR, "        if self._write_lock_count == 1 and self._write_group is not None:\n            self.abort_write_group()\n", "        if self._write_lock_count == 1 and self._write_group is not None:\n", expect="R4-unlock-aborts"),
    Mutant("Repository.unlock no longer aborts a live group", RP, "            if self._write_group is not None:\n                self.abort_write_group()\n                self.control_files.unlock()\n", "            if self._write_group is not None:\n                self.control_files.unlock()\n", expect="R4-unlock-aborts"),
    Mutant("GC collection loses its inventory check override", GC, "    def _check_new_inventories(self):", "    def _check_new_inventories_disabled(self):", expect="R1-gc-override"),
    Mutant("neutral: _remove_resumed_pack_indices inlined in suspend", PR, "        self._remove_resumed_pack_indices()\n        return tokens\n", "        for resumed_pack in self._resumed_packs:\n            self._remove_pack_indices(resumed_pack)\n        del self._resumed_packs[:]\n        return tokens\n", neutral=True),
]
