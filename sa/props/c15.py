"""C15 — shelves: numbering, file naming, metadata keys and the write-before-revert / delete-after-apply orderings.

Only the structural clauses of the property are decided ("shelves are numbered uniquely and survive until deleted", and
the necessary orderings without which a shelved change can be lost); that unshelving restores the tree's *content* is
value equality over tree states and is not decided."""

import ast
import re

from ..astutil import bind_roles, call_attr, call_name, call_recv, calls_in, canonicalise, const_value, norm, walk_own
from ..cfg import build_cfg
from ..rules import calling, fn_cfg, k1_before, need
from ..selftest import Mutant

ID = "C15"
TECHNIQUE = "writer/reader agreement of the shelf file-name template and regex (K6/K9 via re._parser), of the metadata record keys (K6); numbering provenance (K5); CFG ordering write-shelf-before-transform and delete-after-merge with exception edges (K1/K3) (ast)"
FLOOR = 17
SH = "breezy/shelf.py"
UI = "breezy/shelf_ui.py"
EXPLANATION = """
S1 (K6/K9) ShelfManager.get_shelf_filename writes "shelf-%d"; get_shelf_ids recognises exactly that shape: its regular
expression (parsed with re._parser) is the same literal prefix followed by one group of decimal digits without leading
zero, and the group is converted with int(): every shelf written is found again and nothing else is taken for a shelf.
S2 (K5) numbering: new_shelf takes last_shelf() + 1 (1 when there is none); last_shelf is the last element of
active_shelves(), which is sorted(get_shelf_ids(transport.list_dir("."))): the new number is larger than every existing
shelf's, so two live shelves never share a number.
S3 (K1/K3) shelve_changes: the shelf file is completely written (creator.write_shelf) and closed before the working tree
is changed (creator.transform()); a failure while writing never reaches transform() — the changes are removed from the
tree only once they are safely in the shelf.
S4 (K6) metadata: the keys ShelfCreator.metadata_record writes (revision_id, optional message; message encoded utf-8)
are the keys Unshelver.parse_metadata / from_tree_and_shelf read (message decoded utf-8), under the record name
(b"metadata",) on both sides.
S5 (K1/K3) shelf_ui.Unshelver.run: manager.delete_shelf is never reached after a failed merger.do_merge() (the shelf
survives a failed unshelve) and, when changes are applied, is reached only after do_merge(); from_args' action table
deletes only for 'apply' and 'delete-only' (dry-run, preview and keep leave the shelf).
S6 ShelfManager.delete_shelf deletes exactly get_shelf_filename(shelf_id); nothing else in shelf.py deletes from the
shelf transport.
S7 (K6) the revision id stored in the metadata is the revision of the very tree self.shelf_transform was built on
(ShelfCreator.__init__: <tree>.preview_transform(); write_shelf: <tree>.get_revision_id()), and the reader rebuilds the
transform on revision_tree(metadata[b"revision_id"]). Added while testing against seeded changes.
S8 where ShelfCreator creates, with create_from_tree, the content of an entry that it also versions afresh, it sets the
executability on the same transform id (create_from_tree copies kind and content only).
Fourth round: S10-shelf-id-from-directory — the id passed to get_shelf_filename in new_shelf derives (def-use inside the function) from a
last_shelf()/active_shelves() call of the same allocation and reads no other manager attribute. S11-shelf-outlives-failed-transform — no
delete_shelf/delete/unlink is reachable from creator.transform() in shelve_changes, failure edges included.
Does not decide: that the shelved transform, applied back, restores the same tree (tree values).
"""
ASSUMPTIONS = ["the shelf directory is accessed under the working tree's write lock (callers), so list_dir + open is not raced"]


def regex_shape(pattern):
    """('literal prefix', leading digit class, rest digit class, quantifier) of  <literal>(<d1><d2>*)  or None."""
    import re._parser as sp  # noqa: PLC0415

    try:
        p = sp.parse(pattern)
    except Exception:
        return None
    lit = []
    items = list(p)
    i = 0
    while i < len(items) and items[i][0] == sp.LITERAL:
        lit.append(chr(items[i][1]))
        i += 1
    if i != len(items) - 1 or items[i][0] != sp.SUBPATTERN:
        return None
    sub = list(items[i][1][3])
    if len(sub) != 2 or sub[0][0] != sp.IN or sub[1][0] not in (sp.MAX_REPEAT,):
        return None

    def cls(initem):
        out = set()
        for k, v in initem:
            if k == sp.RANGE:
                out |= {chr(c) for c in range(v[0], v[1] + 1)}
            elif k == sp.LITERAL:
                out.add(chr(v))
            else:
                return None
        return out

    first = cls(sub[0][1])
    lo, hi, body = sub[1][1]
    body = list(body)
    if len(body) != 1 or body[0][0] != sp.IN:
        return None
    rest = cls(body[0][1])
    return "".join(lit), first, rest, (lo, hi >= 65535)


def run(ctx):
    repo = ctx.repo
    M = "ShelfManager"
    # ---- S1 ---------------------------------------------------------------------------------------
    fw = repo.func(SH, f"{M}.get_shelf_filename")
    tmpl = [const_value(n.left) for n in walk_own(fw) if isinstance(n, ast.BinOp) and isinstance(n.op, ast.Mod) and isinstance(n.left, ast.Constant)]
    fr = repo.func(SH, f"{M}.get_shelf_ids")
    pats = [const_value(c.args[0]) for c in calls_in(fr) if norm(c.func) in ("re.compile", "re.match", "re.fullmatch") and c.args]
    ws = f"{SH}:{M}.get_shelf_filename/get_shelf_ids"
    ctx.require(len(tmpl) == 1 and len(pats) == 1 and isinstance(pats[0], str), f"{ws}: template / pattern not found ({tmpl} / {pats})")
    shape = regex_shape(pats[0])
    ok = shape is not None and tmpl[0] == shape[0] + "%d" and shape[1] == set("123456789") and shape[2] == set("0123456789") and shape[3] == (0, True)
    ctx.check("S1-name-template", ws, ok, f"file name template {tmpl[0]!r} and recogniser {pats[0]!r} describe the same names (positive decimal number, no leading zero)", construct=f"{tmpl[0]} / {pats[0]}", message=f"shelf files are written as {tmpl[0]!r} but recognised by {pats[0]!r}: a shelf that was written is not listed (it cannot be unshelved and its number is handed out again), or a foreign file is taken for a shelf")
    ctx.check("S1-name-template", ws, any(norm(c.func) == "int" and "group(1)" in norm(c.args[0]) for c in calls_in(fr)), "the recognised number is read with int(group(1))")
    for meth in ("read_shelf", "delete_shelf", "new_shelf"):
        f = repo.func(SH, f"{M}.{meth}")
        ctx.check("S1-name-template", f"{SH}:{M}.{meth}", any(call_attr(c) == "get_shelf_filename" for c in calls_in(f)), f"{meth} derives the file name from get_shelf_filename")
    # ---- S2 ---------------------------------------------------------------------------------------
    fn = repo.func(SH, f"{M}.new_shelf")
    fn = canonicalise(fn, bind_roles(fn, {"last_shelf": ("assign", "self.last_shelf()")}, f"{SH}:{M}.new_shelf"))
    nxt = [norm(s.value) for s in walk_own(fn) if isinstance(s, ast.Assign) and "last_shelf" in norm(s.value) and norm(s.value) != "self.last_shelf()"]
    ctx.check("S2-numbering", f"{SH}:{M}.new_shelf", nxt == ["1 if last_shelf is None else last_shelf + 1"], "the next number is last_shelf() + 1 (1 for the first shelf)", construct=str(nxt), message=f"the new shelf's number is computed as {nxt}: it can collide with an existing shelf and overwrite it")
    fl = repo.func(SH, f"{M}.last_shelf")
    fl = canonicalise(fl, bind_roles(fl, {"active": ("assign", "self.active_shelves()")}, f"{SH}:{M}.last_shelf"))
    rets = sorted(norm(r.value) for r in walk_own(fl) if isinstance(r, ast.Return))
    ctx.check("S2-numbering", f"{SH}:{M}.last_shelf", rets == ["None", "active[-1]"], "last_shelf is the last of active_shelves() (None when empty)", construct=str(rets))
    fa = repo.func(SH, f"{M}.active_shelves")
    srt = [norm(c) for c in calls_in(fa) if norm(c.func) == "sorted"]
    ctx.check("S2-numbering", f"{SH}:{M}.active_shelves", srt == ["sorted(self.get_shelf_ids(self.transport.list_dir('.')))"], "active_shelves is the sorted list of the ids found in the shelf directory", construct=str(srt), message="active_shelves is no longer the sorted list of all shelf ids in the directory: last_shelf() is not the maximum and numbers can be reused while the shelf exists")
    # ---- S3 ---------------------------------------------------------------------------------------
    fnc, g, where = fn_cfg(ctx, SH, f"{M}.shelve_changes", roles={"shelf_file": ("assign", "self.new_shelf()", 1)})
    wr = need(where, calling(g, attr="write_shelf"), "creator.write_shelf(shelf_file, message)")
    cl = calling(g, attr="close", recv="shelf_file") + [n.id for n in g.nodes if n.kind == "with_exit" and norm(n.ast.context_expr) == "shelf_file"]
    tr = need(where, calling(g, attr="transform"), "creator.transform()")
    k1_before(ctx, "S3-write-before-revert", where, g, wr, tr, "the shelf is written before the tree is changed")
    ctx.check("S3-write-before-revert", where, bool(cl), "the shelf file is closed (close() or a with block)")
    if cl:
        k1_before(ctx, "S3-write-before-revert", where, g, cl, tr, "the shelf file is closed (flushed) before the tree is changed")
    xs = [b for w_ in wr for (b, l) in g.succ[w_] if l == "X"]
    ctx.check("S3-write-before-revert", where, bool(xs) and not (set(tr) & g.reach(xs, include_src=True)), "a failure while writing the shelf never reaches creator.transform()", message="after a failed write of the shelf file the tree is still reverted: the changes are lost")
    # ---- S4 ---------------------------------------------------------------------------------------
    fm = repo.func(SH, "ShelfCreator.metadata_record")
    wkeys = {const_value(k) for n in walk_own(fm) if isinstance(n, ast.Dict) for k in n.keys} | {const_value(n.slice) for n in walk_own(fm) if isinstance(n, ast.Subscript) and isinstance(n.ctx, ast.Store)}
    fp = repo.func(SH, "Unshelver.parse_metadata")
    ft = repo.func(SH, "Unshelver.from_tree_and_shelf")
    rkeys = set()
    for f in (fp, ft):
        for n in walk_own(f):
            if isinstance(n, ast.Subscript) and isinstance(n.slice, ast.Constant) and isinstance(n.slice.value, bytes) and "metadata" in norm(n.value):
                rkeys.add(n.slice.value)
            if isinstance(n, ast.Call) and call_attr(n) == "get" and "metadata" in (call_recv(n) or "") and n.args and isinstance(n.args[0], ast.Constant):
                rkeys.add(n.args[0].value)
    ctx.check("S4-metadata-keys", f"{SH}:ShelfCreator.metadata_record/Unshelver", wkeys == rkeys == {b"revision_id", b"message"}, f"metadata keys written {sorted(wkeys)} == keys read {sorted(rkeys)}", construct=f"{sorted(wkeys)} / {sorted(rkeys)}", message=f"shelf metadata keys disagree: written {sorted(wkeys)}, read {sorted(rkeys)} — the base revision or the message of a shelf is lost on unshelve")
    rec_w = [n.value for n in walk_own(fm) if isinstance(n, ast.Constant) and n.value == b"metadata"]
    rec_r = [n.value for n in walk_own(fp) if isinstance(n, ast.Constant) and n.value == b"metadata"]
    ctx.check("S4-metadata-keys", f"{SH}:Unshelver.parse_metadata", len(rec_w) == 1 and len(rec_r) == 1 and any(isinstance(n, ast.Raise) for n in walk_own(fp)), "both sides name the record (b'metadata',) and the reader refuses another first record")
    enc = any(call_attr(c) == "encode" and const_value(c.args[0]) == "utf-8" for c in calls_in(fm) if c.args)
    dec = any(call_attr(c) == "decode" and const_value(c.args[0]) == "utf-8" for c in calls_in(fp) if c.args)
    ctx.check("S4-metadata-keys", f"{SH}:ShelfCreator.metadata_record/Unshelver.parse_metadata", enc and dec, "the message is encoded and decoded as utf-8")
    # ---- S7: the revision recorded as the shelf's base is the revision of the tree the shelf transform was built on
    # (the reader rebuilds the transform on revision_tree(metadata[revision_id]); any other revision makes unshelve merge
    # against a base the stored changes are not relative to)
    init = repo.func(SH, "ShelfCreator.__init__")
    built_on = sorted({norm(c.func.value) for n in walk_own(init) if isinstance(n, ast.Assign) and norm(n.targets[0]) == "self.shelf_transform" for c in [n.value] if isinstance(c, ast.Call) and call_attr(c) == "preview_transform"})
    ctx.require(len(built_on) == 1 and built_on[0].startswith("self."), f"{SH}:ShelfCreator.__init__: tree of self.shelf_transform not recognised ({built_on})")
    fw = repo.func(SH, "ShelfCreator.write_shelf")
    wcalls = [c for c in calls_in(fw) if call_attr(c) == "_write_shelf"]
    ctx.require(len(wcalls) == 1 and len(wcalls[0].args) >= 3, f"{SH}:ShelfCreator.write_shelf: the _write_shelf call was not found")

    def _resolve(e):
        seen = 0
        while isinstance(e, ast.Name) and seen < 4:
            vals = [n.value for n in walk_own(fw) if isinstance(n, ast.Assign) and any(norm(t) == e.id for t in n.targets)]
            if len(vals) != 1:
                break
            e, seen = vals[0], seen + 1
        return norm(e)

    tr_, rid_ = _resolve(wcalls[0].args[1]), _resolve(wcalls[0].args[2])
    ctx.check("S7-base-is-transform-tree", f"{SH}:ShelfCreator.write_shelf", tr_ == "self.shelf_transform" and rid_ == f"{built_on[0]}.get_revision_id()", f"the shelf stores self.shelf_transform (built on {built_on[0]}) together with {built_on[0]}.get_revision_id()", construct=f"_write_shelf(…, {tr_}, {rid_})", message=f"write_shelf records `{rid_}` as the base revision of a transform that was built on {built_on[0]}: with a shelve target other than that revision (shelve -r), unshelve rebuilds the transform on the wrong tree and restores different content or conflicts")
    rd_tree = [norm(c.func.value) for c in calls_in(ft) if call_attr(c) == "preview_transform"]
    rev_of = {norm(n.targets[0]): norm(n.value) for n in ast.walk(ft) if isinstance(n, ast.Assign) and isinstance(n.value, ast.Call) and call_attr(n.value) == "revision_tree"}
    key_of = {norm(n.targets[0]): n.value.slice.value for n in walk_own(ft) if isinstance(n, ast.Assign) and isinstance(n.value, ast.Subscript) and isinstance(n.value.slice, ast.Constant)}
    ok_r = len(rd_tree) == 1 and rd_tree[0] in rev_of and all(any(k in v and key_of[k] == b"revision_id" for k in key_of) for t, v in rev_of.items() if t == rd_tree[0])
    ctx.check("S7-base-is-transform-tree", f"{SH}:Unshelver.from_tree_and_shelf", ok_r, "the reader deserialises the transform on revision_tree(metadata[b'revision_id'])", construct=f"{rd_tree} / {rev_of}", message="from_tree_and_shelf no longer rebuilds the shelf transform on the tree of the recorded base revision")
    # ---- S8: a file (re)created as a newly versioned entry carries its executable bit ------------------------------
    # create_from_tree() copies kind and content only.  Where ShelfCreator creates the content of an entry it also
    # versions afresh (shelved additions go to the shelf transform, shelved deletions come back into the work tree) the
    # executable bit has to be set on the same transform id, or the file comes back non-executable.
    n_s8 = 0
    for q, f in repo.module(SH).functions().items():
        if not q.startswith("ShelfCreator."):
            continue
        creates = [c for c in calls_in(f) if (call_attr(c) or norm(c.func)) == "create_from_tree" and len(c.args) >= 2]
        versions = {(call_recv(c), norm(c.args[0])) for c in calls_in(f) if call_attr(c) == "version_file" and c.args}
        for c in creates:
            key = (norm(c.args[0]), norm(c.args[1]))
            if key not in versions:
                continue
            n_s8 += 1
            execs = [x for x in calls_in(f) if call_attr(x) == "set_executability" and call_recv(x) == key[0] and len(x.args) >= 2 and norm(x.args[1]) == key[1] and x.lineno >= c.lineno]
            ctx.check("S8-created-entry-keeps-exec-bit", f"{SH}:{q}", bool(execs), f"{q}: the entry created from a tree on {key[0]} also gets its executability set", construct=f"L{c.lineno}:{norm(c)[:70]}", message=f"{q} creates the content of a freshly versioned entry with create_from_tree({key[0]}, {key[1]}, …) and never sets its executability: an added executable file that is shelved and unshelved (or a deleted one whose deletion is shelved) comes back without its executable bit — the tree is not what it was before shelving")
    ctx.require(n_s8 >= 1, f"{SH}:ShelfCreator: no create_from_tree of a freshly versioned entry found (hand-confirmed: _shelve_creation)")
    # ---- S5 ---------------------------------------------------------------------------------------
    fnu, gu, whereu = fn_cfg(ctx, UI, "Unshelver.run")
    dm = need(whereu, calling(gu, attr="do_merge"), "merger.do_merge()")
    dl = need(whereu, calling(gu, attr="delete_shelf", recv="self.manager"), "self.manager.delete_shelf(self.shelf_id)")
    xs = [b for d in dm for (b, l) in gu.succ[d] if l == "X"]
    ctx.check("S5-delete-after-apply", whereu, bool(xs) and not (set(dl) & gu.reach(xs, include_src=True)), "a failed merger.do_merge() never reaches delete_shelf (the shelf survives a failed unshelve)", message="the shelf is deleted although applying it failed: the shelved changes are lost")
    g_apply = gu.assume({"self.apply_changes": True, "self.read_shelf": True})
    ok, w = g_apply.always_before(dm, dl)
    ctx.check("S5-delete-after-apply", whereu, ok, "when changes are applied the shelf is deleted only after do_merge()", witness=gu.show_path(w) if w else None, message="the shelf can be deleted before its changes were applied")
    k_ok = not (set(dl) & gu.assume({"self.delete_shelf": False}).reachable_from_entry())
    ctx.check("S5-delete-after-apply", whereu, k_ok, "delete_shelf is reached only when self.delete_shelf is set")
    fa_ = repo.func(UI, "Unshelver.from_args")
    kc = [c for c in calls_in(fa_) if norm(c.func) in ("klass", "cls") and len(c.args) >= 7 and all(isinstance(a, ast.Name) for a in c.args[3:7])]
    ctx.require(len(kc) == 1, f"{UI}:Unshelver.from_args: constructor call not found")
    fa_ = canonicalise(fa_, {"apply_changes": kc[0].args[3].id, "delete_shelf": kc[0].args[4].id, "read_shelf": kc[0].args[5].id, "show_diff": kc[0].args[6].id})
    table = {}
    cur = None
    for n in ast.walk(fa_):
        if isinstance(n, ast.If) and isinstance(n.test, ast.Compare) and norm(n.test.left) == "action" and isinstance(n.test.comparators[0], ast.Constant):
            act = n.test.comparators[0].value
            table[act] = {norm(s.targets[0]): norm(s.value) for s in n.body if isinstance(s, ast.Assign)}
    defaults = {}
    for s in walk_own(fa_):
        if isinstance(s, ast.Assign) and norm(s.targets[0]) in ("apply_changes", "delete_shelf", "read_shelf", "show_diff") and norm(s.targets[0]) not in defaults:
            defaults[norm(s.targets[0])] = norm(s.value)
    eff = {a: dict(defaults, **v) for a, v in table.items()}
    want_delete = {"dry-run": "False", "preview": "False", "keep": "False", "delete-only": "True"}
    ok = defaults.get("delete_shelf") == "True" and all(eff.get(a, {}).get("delete_shelf") == d for a, d in want_delete.items()) and eff.get("delete-only", {}).get("apply_changes") == "False" and eff.get("keep", {}).get("apply_changes") == "True"
    ctx.check("S5-action-table", f"{UI}:Unshelver.from_args", ok, "actions: apply deletes after applying; dry-run, preview and keep leave the shelf; delete-only deletes without applying", construct=str({a: v.get("delete_shelf") for a, v in eff.items()}), message=f"the unshelve action table deletes the shelf for the wrong actions: {({a: v.get('delete_shelf') for a, v in eff.items()})}")
    # ---- S6 ---------------------------------------------------------------------------------------
    deleters = {}
    for q, f in repo.module(SH).functions().items():
        for c in calls_in(f):
            if call_attr(c) in ("delete", "delete_tree", "delete_multi", "rmdir") and "transport" in (call_recv(c) or ""):
                deleters.setdefault(q, []).append(norm(c))
    ctx.check("S6-only-delete-shelf-deletes", SH, set(deleters) == {f"{M}.delete_shelf"}, "the only function of shelf.py that deletes from the shelf transport is ShelfManager.delete_shelf", construct=str(deleters), message=f"shelf files are deleted outside delete_shelf: {deleters}")
    fd = repo.func(SH, f"{M}.delete_shelf")
    fd = canonicalise(fd, bind_roles(fd, {"filename": ("assign", "self.get_shelf_filename(shelf_id)")}, f"{SH}:{M}.delete_shelf"))
    ctx.check("S6-only-delete-shelf-deletes", f"{SH}:{M}.delete_shelf", [norm(c) for c in calls_in(fd) if call_attr(c) == "delete"] == ["self.transport.delete(filename)"], "delete_shelf deletes exactly the named shelf's file")
    # ---- S9: the merge that builds the shelved text aligns lines the way the offered hunks were computed -------------
    fdiff = repo.func("breezy/diff.py", "internal_diff")
    dflt = {norm(s_.value).split(".")[-1] for s_ in walk_own(fdiff) if isinstance(s_, ast.Assign) and norm(s_.targets[0]) == "sequence_matcher"}
    ctx.require(len(dflt) == 1, f"breezy/diff.py:internal_diff: default sequence matcher not found ({sorted(dflt)})")
    fil = repo.func(SH, "ShelfCreator._inverse_lines") if repo.has(SH, "ShelfCreator._inverse_lines") else None
    ctx.require(fil is not None, f"{SH}:ShelfCreator._inverse_lines not found")
    m3 = [c for c in calls_in(fil) if (call_name(c) or norm(c.func)).split(".")[-1] == "Merge3"]
    ctx.require(len(m3) >= 1, f"{SH}:ShelfCreator._inverse_lines: Merge3(...) call not found")
    for c in m3:
        given = [norm(k.value).split(".")[-1] for k in c.keywords if k.arg == "sequence_matcher"] + [norm(a).split(".")[-1] for a in c.args[4:5]]
        ctx.check("S9-merge-aligns-like-the-diff", f"{SH}:ShelfCreator._inverse_lines", given == sorted(dflt), f"Merge3 is given the matcher the hunk diff uses by default ({sorted(dflt)[0]})", construct=norm(c)[:120], message=f"_inverse_lines merges the selected hunks with {given[0] if given else 'the default difflib matcher'} while the hunks offered to the user are computed with {sorted(dflt)[0]}: on files with repeated lines the two align differently, the shelved text gets conflict markers or misplaced lines and unshelving does not restore the content")
    ctx.sample({"template": tmpl[0], "pattern": pats[0], "metadata_keys": sorted(k.decode() for k in wkeys), "actions": {a: v.get("delete_shelf") for a, v in eff.items()}})
    # ---- S10: a new shelf id is computed from the shelf directory at every allocation --------------------------------------
    fns = repo.func(SH, "ShelfManager.new_shelf")
    wns = f"{SH}:ShelfManager.new_shelf"
    namers = [c for c in calls_in(fns) if call_attr(c) == "get_shelf_filename" and c.args]
    ctx.require(len(namers) == 1, f"{wns}: expected one get_shelf_filename(<id>) call")
    listed = {"last_shelf", "active_shelves"}
    tainted, changed = set(), True
    assigns_ = [a for a in walk_own(fns) if isinstance(a, ast.Assign) and len(a.targets) == 1 and isinstance(a.targets[0], ast.Name)]
    while changed:
        changed = False
        for a in assigns_:
            if a.targets[0].id in tainted:
                continue
            if any(call_attr(c) in listed and call_recv(c) == "self" for c in calls_in(a.value)) or any(isinstance(n_, ast.Name) and n_.id in tainted for n_ in ast.walk(a.value)):
                tainted.add(a.targets[0].id)
                changed = True
    idexpr = namers[0].args[0]
    idsrc = [a.value for a in assigns_ if isinstance(idexpr, ast.Name) and a.targets[0].id == idexpr.id] or [idexpr]
    state_reads = sorted({norm(n_) for v_ in idsrc for n_ in ast.walk(v_) if isinstance(n_, ast.Attribute) and isinstance(n_.value, ast.Name) and n_.value.id == "self" and n_.attr not in listed})
    from_dir = all(any((isinstance(n_, ast.Name) and n_.id in tainted) or (isinstance(n_, ast.Call) and call_attr(n_) in listed) for n_ in ast.walk(v_)) for v_ in idsrc)
    ctx.check("S10-shelf-id-from-directory", wns, from_dir and not state_reads, "the id of a new shelf derives from last_shelf()/active_shelves() called in this allocation, not from state kept on the manager", construct=f"id from {[norm(v_)[:50] for v_ in idsrc]}; manager state read: {state_reads}", message=f"ShelfManager.new_shelf takes the new id from {state_reads or 'something other than the directory listing'}: every tree.get_shelf_manager() call makes a new manager, so two managers of one tree hand out the same id and the second shelf is opened 'wb' over the first — the shelved changes are lost")
    # ---- S11: once written, the shelf outlives a failure of the tree change -------------------------------------------------
    fsc = repo.func(SH, "ShelfManager.shelve_changes")
    gsc = build_cfg(fsc)
    tr = calling(gsc, attr="transform")
    ctx.require(bool(tr), f"{SH}:ShelfManager.shelve_changes: creator.transform() not found")
    dels = set(calling(gsc, attr="delete_shelf")) | set(gsc.find(lambda n: n.ast is not None and any(call_attr(c) in ("delete", "unlink", "remove") for c in n.calls())))
    hit15 = sorted(gsc.reach(tr) & dels)
    ctx.check("S11-shelf-outlives-failed-transform", f"{SH}:ShelfManager.shelve_changes", not hit15, "nothing reachable from creator.transform() (including its failure edges) deletes the shelf that was just written", construct=gsc.nodes[hit15[0]].text() if hit15 else "", message=f"shelve_changes can reach `{gsc.nodes[hit15[0]].text() if hit15 else ''}` after creator.transform() has started: a transform that fails late (after files and inventory were rewritten — rename failure, finalize) has already removed the changes from the tree, and the shelf that holds their only copy is deleted")


MUTANTS = [
    Mutant("shelf id remembered on the manager", SH, "        last_shelf = self.last_shelf()\n        next_shelf = 1 if last_shelf is None else last_shelf + 1\n        filename = self.get_shelf_filename(next_shelf)\n", "        if getattr(self, \"_next\", None) is None:\n            last_shelf = self.last_shelf()\n            self._next = 1 if last_shelf is None else last_shelf + 1\n        next_shelf = self._next\n        self._next += 1\n        filename = self.get_shelf_filename(next_shelf)\n", expect="S10-shelf-id-from-directory"),
    Mutant("shelf deleted when the transform fails", SH, "            shelf_file.close()\n        creator.transform()\n        return next_shelf\n", "            shelf_file.close()\n        try:\n            creator.transform()\n        except BaseException:\n            self.delete_shelf(next_shelf)\n            raise\n        return next_shelf\n", expect="S11-shelf-outlives-failed-transform"),
    Mutant("partial-hunk merge falls back to difflib", SH, "            work_lines,\n            sequence_matcher=patiencediff.PatienceSequenceMatcher,\n", "            work_lines,\n", expect="S9-merge-aligns-like-the-diff"),
    Mutant("created entries lose the executable bit", SH, "                    if kind == \"file\" and tree.is_executable(path):\n                        to_transform.set_executability(True, s_trans_id)\n", "", expect="S8-created-entry-keeps-exec-bit"),
    Mutant("shelf base recorded from the working tree's last revision", SH, "        revision_id = self.target_tree.get_revision_id()\n", "        revision_id = self.work_tree.last_revision()\n", expect="S7-base-is-transform-tree"),
    Mutant("neutral: base revision id passed inline", SH, "        revision_id = self.target_tree.get_revision_id()\n        return self._write_shelf(shelf_file, self.shelf_transform, revision_id, message)\n", "        return self._write_shelf(\n            shelf_file, self.shelf_transform, self.target_tree.get_revision_id(), message\n        )\n", neutral=True),
    Mutant("tree reverted first, shelf written in a with block", SH, "        next_shelf, shelf_file = self.new_shelf()\n        try:\n            creator.write_shelf(shelf_file, message)\n        finally:\n            shelf_file.close()\n        creator.transform()\n", "        creator.transform()\n        next_shelf, shelf_file = self.new_shelf()\n        with shelf_file:\n            creator.write_shelf(shelf_file, message)\n", expect="S3-write-before-revert"),
    Mutant("neutral: shelf written in a with block before the revert", SH, "        try:\n            creator.write_shelf(shelf_file, message)\n        finally:\n            shelf_file.close()\n        creator.transform()\n", "        with shelf_file:\n            creator.write_shelf(shelf_file, message)\n        creator.transform()\n", neutral=True),
    Mutant("recogniser accepts a different prefix", SH, 'matcher = re.compile("shelf-([1-9][0-9]*)")', 'matcher = re.compile("shelf([1-9][0-9]*)")', expect="S1-name-template"),
    Mutant("recogniser stops at one digit", SH, 'matcher = re.compile("shelf-([1-9][0-9]*)")', 'matcher = re.compile("shelf-([1-9][0-9]?)")', expect="S1-name-template"),
    Mutant("numbering from the count of shelves", SH, "        next_shelf = 1 if last_shelf is None else last_shelf + 1\n", "        next_shelf = len(self.active_shelves()) + 1\n", expect="S2-numbering"),
    Mutant("active shelves unsorted", SH, '        active = sorted(self.get_shelf_ids(self.transport.list_dir(".")))', '        active = self.get_shelf_ids(self.transport.list_dir("."))', expect="S2-numbering"),
    Mutant("tree reverted before the shelf is written", SH, "        try:\n            creator.write_shelf(shelf_file, message)\n        finally:\n            shelf_file.close()\n        creator.transform()\n", "        creator.transform()\n        try:\n            creator.write_shelf(shelf_file, message)\n        finally:\n            shelf_file.close()\n", expect="S3-write-before-revert"),
    Mutant("tree reverted in the finally of the write", SH, "        finally:\n            shelf_file.close()\n        creator.transform()\n", "        finally:\n            shelf_file.close()\n            creator.transform()\n", expect="S3-write-before-revert"),
    Mutant("metadata key renamed on the writer", SH, '        metadata = {b"revision_id": revision_id}', '        metadata = {b"revision-id": revision_id}', expect="S4-metadata-keys"),
    Mutant("shelf deleted in a cleanup after a failed merge", UI, "                if self.apply_changes:\n                    merger.do_merge()\n", "                if self.apply_changes:\n                    try:\n                        merger.do_merge()\n                    finally:\n                        self.manager.delete_shelf(self.shelf_id)\n", expect="S5-delete-after-apply"),
    Mutant("keep deletes the shelf", UI, '            elif action == "keep":\n                apply_changes = True\n                delete_shelf = False', '            elif action == "keep":\n                apply_changes = True\n                delete_shelf = True', expect="S5-action-table"),
    Mutant("neutral: template via f-string-free format call", SH, '        return "shelf-%d" % shelf_id', '        return "shelf-%d" % (shelf_id,)', neutral=True),
]
