"""C46 — clean-tree deletes only what was asked for: guards and provenance of deleted paths."""

import ast

from ..astutil import call_attr, call_name, call_recv, calls_in, norm, walk_own
from ..cfg import build_cfg
from ..rules import calling, fn_cfg, k2_unreachable, need
from ..selftest import Mutant

ID = "C46"
TECHNIQUE = "control dependence of every destructive call on `not dry_run` (K2), provenance of the deleted paths from tree.extras() through the nested-controldir filter (K5), category-flag guards on every yield (K2) (ast)"
FLOOR = 16
CT = "breezy/clean_tree.py"
EXPLANATION = """
K2: in clean_tree.py:delete_items every destructive call (shutil.rmtree, os.unlink, os.remove, os.rmdir,
osutils.delete_any/rmtree) is unreachable when dry_run is set, and its path argument is the loop variable over
`deletables`. K5: clean_tree() hands delete_items exactly
_filter_out_nested_controldirs(list(iter_deletables(tree, unknown=, ignored=, detritus=))) with the caller's flags, under
the tree lock; nothing else in the module deletes. K2: every yield of iter_deletables is inside `for ... in tree.extras()`
(only unversioned paths are candidates), yields the loop's own path, and is reachable only when the matching category
flag is set: detritus-named files under `detritus`, ignored files under `ignored`, everything else under `unknown`;
with all flags false nothing is yielded. _filter_out_nested_controldirs keeps a directory only in the NotBranchError
handler (a directory in which ControlDir.open succeeds — a nested branch — is dropped) and passes files through.
Added while testing against seeded changes: Also: only NotBranchError means 'not a branch' in the nested-controldir
filter; InventoryWorkingTree.extras lists a versioned directory only after the lstat-based osutils.isdir.
Third round: delete-under-scan-lock — delete_items is called inside the `with tree.lock_*()` block that called iter_deletables.
nested-branches-kept, two further clauses (from a third-round agent's observations on the unmodified tree, both known findings): the
filter searches a listed directory for control directories below it; a listed file is checked against enclosing control directories.
Fourth round: git-walk-nested-by-control-entry — GitWorkingTree._iter_files_recursive prunes nested trees through
_directory_is_tree_reference() and has no `'.git' in dirnames` test (a gitfile is not a directory).
Does not decide: correctness of WorkingTree.extras() / is_ignored().
"""
DESTRUCTIVE = {"shutil.rmtree", "os.unlink", "os.remove", "os.rmdir", "osutils.delete_any", "osutils.rmtree", "delete_any", "rmtree", "os.removedirs", "shutil.move", "os.rename"}


def run(ctx):
    repo = ctx.repo
    mod = repo.module(CT)
    # ---- who deletes ---------------------------------------------------------------
    deleters = {}
    for q, f in mod.functions().items():
        for c in calls_in(f):
            if call_name(c) in DESTRUCTIVE:
                deleters.setdefault(q, []).append(norm(c)[:60])
    ctx.check("only-delete-items-deletes", CT, set(deleters) == {"delete_items"}, "the only function of clean_tree.py that deletes is delete_items", construct=str(sorted(deleters)), message=f"destructive calls outside delete_items: {sorted(set(deleters) - {'delete_items'})}")
    fn, g, where = fn_cfg(ctx, CT, "delete_items")
    dels = need(where, calling(g, name=DESTRUCTIVE), "destructive calls")
    k2_unreachable(ctx, "dry-run-deletes-nothing", where, g, {"dry_run": True, "not dry_run": False}, dels, "with dry_run nothing is deleted")
    loops = [n for n in walk_own(fn) if isinstance(n, ast.For) and norm(n.iter) == "deletables"]
    ctx.require(len(loops) == 1, f"{where}: loop over deletables not found")
    lv = norm(loops[0].target.elts[0]) if isinstance(loops[0].target, ast.Tuple) else norm(loops[0].target)
    for i in dels:
        for c in g.nodes[i].calls():
            if call_name(c) in DESTRUCTIVE:
                ctx.check("deletes-only-listed-paths", where, c.args and norm(c.args[0]) == lv and g.loops_of(i), f"`{norm(c)[:50]}` deletes the loop's own path `{lv}`", construct=norm(c)[:60], message=f"`{norm(c)[:60]}` does not delete the path taken from `deletables`")
    # ---- provenance in clean_tree() --------------------------------------------------
    from ..astutil import bind_roles, canonicalise

    fc = repo.func(CT, "clean_tree")
    fc = canonicalise(fc, bind_roles(fc, {"tree": ("assign", "~WorkingTree\\.open_containing\\(.*\\)\\[0\\]"), "deletables": ("assign", "~list\\(iter_deletables\\(.*\\)\\)")}, f"{CT}:clean_tree"))
    wc = f"{CT}:clean_tree"
    binds = [(norm(s.targets[0]), norm(s.value)) for s in walk_own(fc) if isinstance(s, ast.Assign)]
    d_binds = [v for t, v in binds if t == "deletables"]
    ok = len(d_binds) == 2 and d_binds[0].replace(" ", "") == "list(iter_deletables(tree,unknown=unknown,ignored=ignored,detritus=detritus))" and d_binds[1] == "_filter_out_nested_controldirs(deletables)"
    ctx.check("deleted-set-provenance", wc, ok, "deletables = _filter_out_nested_controldirs(list(iter_deletables(tree, <caller's flags>)))", construct=str(d_binds), message="the list handed to delete_items is not the filtered iter_deletables() result with the caller's flags")
    di = [c for c in calls_in(fc) if call_name(c) == "delete_items"]
    ctx.check("deleted-set-provenance", wc, len(di) == 1 and norm(di[0].args[0]) == "deletables" and any(k.arg == "dry_run" and norm(k.value) == "dry_run" for k in di[0].keywords), "delete_items(deletables, dry_run=dry_run)")
    gc = build_cfg(fc)
    ask = [n.id for n in gc.nodes if n.kind == "test" and "get_boolean" in norm(n.ast)]
    din = calling(gc, name="delete_items")
    if ask:
        env_decl = {"no_prompt": False, "not no_prompt": True}
        env_decl.update({norm(gc.nodes[t].ast): False for t in ask})  # the user answered no
        r = gc.assume(env_decl).reachable_from_entry()
        ctx.check("prompt-respected", wc, not (set(din) & r), "without no_prompt, deletion happens only after the user confirmed")
    # ---- iter_deletables ---------------------------------------------------------------
    fn, g, where = fn_cfg(ctx, CT, "iter_deletables", roles={"subp": ("for", "~tree\\.\\w+\\(\\)")})
    ys = [n.id for n in g.nodes if n.kind == "stmt" and isinstance(n.ast, ast.Expr) and isinstance(n.ast.value, ast.Yield)]
    ctx.require(len(ys) >= 3, f"{where}: yields not found")
    hdr = [n for n in g.nodes if n.kind == "for"]
    ctx.check("candidates-are-extras", where, len(hdr) >= 1 and all(norm(h.ast.iter) == "tree.extras()" for h in hdr) and all(g.loops_of(y) for y in ys), "every yield is inside `for ... in tree.extras()`")
    lv = norm(hdr[0].ast.target) if hdr else "?"
    ctx.check("candidates-are-extras", where, all(norm(g.nodes[y].ast.value.value) == f"(tree.abspath({lv}), {lv})" for y in ys), f"what is yielded is the loop's own path `{lv}`")
    k2_unreachable(ctx, "category-guards", where, g, {"unknown": False, "ignored": False, "detritus": False}, ys, "with no category selected nothing is a candidate")
    # each yield is guarded by exactly its category
    gi = g.assume({"ignored": False})
    gu = g.assume({"unknown": False})
    gd = g.assume({"detritus": False})
    env_ign = g.assume({"tree.is_ignored(subp)": True, "detritus": False, "ignored": False})
    ctx.check("category-guards", where, not (set(ys) & env_ign.reachable_from_entry()), "an ignored file is not a candidate unless `ignored` (or detritus naming) was requested")
    env_unk = g.assume({"tree.is_ignored(subp)": False, "detritus": False, "unknown": False})
    ctx.check("category-guards", where, not (set(ys) & env_unk.reachable_from_entry()), "an unknown file is not a candidate unless `unknown` (or detritus naming) was requested")
    env_det = g.assume({"detritus": True, "is_detritus(subp)": False, "detritus and is_detritus(subp)": False, "unknown": False, "ignored": False})
    ctx.check("category-guards", where, not (set(ys) & env_det.reachable_from_entry()), "`detritus` alone selects only detritus-named files")
    # ---- nested control dirs --------------------------------------------------------------
    fn, g, where = fn_cfg(ctx, CT, "_filter_out_nested_controldirs", roles={"result": ("return", None, None), "path": ("for", "deletables", 0)})
    apps = need(where, calling(g, attr="append", recv="result"), "result.append")
    opens = need(where, calling(g, name="controldir.ControlDir.open"), "ControlDir.open(path)")
    hs = [n.id for n in g.nodes if n.kind == "handler" and "NotBranchError" in norm(n.ast.type)]
    g_dir = g.assume({"isdir(path)": True})
    cut = {(o, b, l) for o in opens for (b, l) in g.succ[o] if l == "X"}
    r = g_dir.copy_without(cut).reachable_from_entry()
    ctx.check("nested-branches-kept", where, bool(hs) and not (set(apps) & r), "a directory is kept for deletion only when ControlDir.open() raised NotBranchError", message="a directory containing a nested branch can end up in the deletion list")
    from ..astutil import handler_types

    htypes = sorted({t.split(".")[-1] for n in g.nodes if n.kind == "handler" for t in handler_types(n.ast)})
    ctx.check("nested-branches-kept", where, htypes == ["NotBranchError"], "only NotBranchError is treated as 'not a branch' (an unreadable or unsupported control directory is still a branch and must not be deleted)", construct=str(htypes), message=f"a directory is queued for deletion when ControlDir.open raises any of {htypes}: a nested branch in a format this breezy cannot open would be deleted")
    # ---- the enumeration of unversioned paths does not walk through symlinks ---------------------
    WT = "breezy/bzr/workingtree.py"
    fe = repo.func(WT, "InventoryWorkingTree.extras")
    fe = canonicalise(fe, bind_roles(fe, {"dirabs": ("assign", "~self\\.abspath\\(\\w+\\)")}, f"{WT}:InventoryWorkingTree.extras"))
    ge = build_cfg(fe)
    we = f"{WT}:InventoryWorkingTree.extras"
    ls = need(we, calling(ge, name="os.listdir"), "os.listdir(...)")
    isd = [n for n in ge.nodes if n.kind == "test" and "osutils.isdir(dirabs)" in norm(n.ast)]
    ok = len(isd) == 1
    if ok:
        env = {norm(isd[0].ast): (not norm(isd[0].ast).startswith("not "))}  # value of the test when dirabs is NOT a real directory
        ok = not (set(ls) & ge.assume({"osutils.isdir(dirabs)": False, "not osutils.isdir(dirabs)": True}).reachable_from_entry())
    ctx.check("extras-stays-inside-tree", we, ok, "a versioned directory is listed only after osutils.isdir(dirabs) (lstat based: a symlink that replaced the directory is not followed)", message="extras() lists a versioned directory without the lstat-based isdir() guard: if the directory was replaced by a symlink, files outside the tree are reported as unknown and clean-tree deletes them")
    from ..rustlite import RustFile

    rb = RustFile(repo, "crates/osutils/src/file.rs").fn_body("isdir")
    ctx.check("extras-stays-inside-tree", "crates/osutils/src/file.rs:isdir", "symlink_metadata" in rb and "fs::metadata(" not in rb, "osutils.isdir is lstat based (symlink_metadata): it does not follow symlinks", message="osutils.isdir follows symlinks: a symlink to a directory outside the tree would be walked")
    ctx.check("extras-stays-inside-tree", we, all("dirabs" in norm(c.args[0]) for i in ls for c in ge.nodes[i].calls() if norm(c.func) == "os.listdir"), "the directory listed is the one that was tested")
    rets = [norm(r_.value) for r_ in walk_own(fn) if isinstance(r_, ast.Return)]
    ctx.check("nested-branches-kept", where, rets == ["result"], "the filtered list is what is returned")
    # ---- the scan, the question and the deletion happen under one tree lock ----------------------------------------------
    fct = repo.func(CT, "clean_tree")
    wct = f"{CT}:clean_tree"
    withs = [w for w in ast.walk(fct) if isinstance(w, ast.With) and any(isinstance(it.context_expr, ast.Call) and call_attr(it.context_expr) in ("lock_read", "lock_write", "lock_tree_write") for it in w.items)]
    scans = [c for c in calls_in(fct) if call_name(c) == "iter_deletables" or call_attr(c) == "iter_deletables"]
    dels_ct = [c for c in calls_in(fct) if call_name(c) == "delete_items" or call_attr(c) == "delete_items"]
    ctx.require(bool(scans) and bool(dels_ct), f"{wct}: iter_deletables / delete_items calls not found")

    def _inside(c, w):
        return any(x is c for x in ast.walk(w))

    ok_lock = all(any(_inside(d_, w) and any(_inside(s_, w) for s_ in scans) for w in withs) for d_ in dels_ct)
    ctx.check("delete-under-scan-lock", wct, ok_lock, "delete_items runs inside the `with tree.lock_*()` block that listed the deletables", construct=str([f"L{d_.lineno}" for d_ in dels_ct]), message="clean_tree releases the tree lock between listing the unversioned paths and deleting them (the confirmation prompt sits in between): another process can version one of the listed files meanwhile (`brz add` is no longer refused by the lock) and clean-tree then deletes a versioned file")
    # ---- the nested-branch filter looks above and below the path it is given -------------------------------------------
    ffil = repo.func(CT, "_filter_out_nested_controldirs")
    wfil = f"{CT}:_filter_out_nested_controldirs"
    looks_below = any(call_attr(c) in ("walk", "listdir", "scandir", "iter_files_recursive", "_filter_out_nested_controldirs") or call_name(c) in ("os.walk", "os.listdir", "os.scandir", "_filter_out_nested_controldirs") for c in calls_in(ffil))
    if looks_below:
        ctx.check("nested-branches-kept", f"{wfil}[descendants]", True, "a directory queued for deletion is searched for control directories below it")
    else:
        ctx.violation("nested-branches-kept", f"{wfil}[descendants]", "ControlDir.open(path) on the listed path only", "_filter_out_nested_controldirs probes only the listed directory itself: a branch in a sub-directory of an unknown directory (unk/nested/.bzr) is not seen, the whole directory is deleted with the branch in it")
    # a listed *file* is appended without any probe: if the tree lists the contents of a nested tree file by file (the git tree does:
    # its extras() prunes only directories holding .git), the files of a nested branch, control directory included, are deleted
    probes_files = False
    for n_ in ast.walk(ffil):
        if isinstance(n_, ast.If) and any(call_name(c) in ("isdir", "osutils.isdir", "os.path.isdir") for c in calls_in(ast.Expr(value=n_.test))):
            probes_files = any(call_attr(c) in ("open", "open_containing", "find_format") or "control" in (call_name(c) or "").lower() for st in n_.orelse for c in calls_in(st))
    if probes_files:
        ctx.check("nested-branches-kept", f"{wfil}[files-in-nested-tree]", True, "a listed file is checked against enclosing control directories")
    else:
        ctx.violation("nested-branches-kept", f"{wfil}[files-in-nested-tree]", "else: result.append((path, subp))", "_filter_out_nested_controldirs keeps every listed path that is not a directory without asking whether it lies inside a nested tree: GitWorkingTree.extras() lists the files of a nested bzr branch one by one (nested/.bzr/README, …), so clean-tree deletes the nested branch, control directory included")
    # ---- fourth round: the git walk recognises a nested tree by its control *entry* (directory or gitfile) --------------
    GW = "breezy/git/workingtree.py"
    fwalk = repo.func(GW, "GitWorkingTree._iter_files_recursive")
    probes = [c for c in calls_in(fwalk) if call_attr(c) == "_directory_is_tree_reference"]
    listing_tests = [norm(n_)[:60] for n_ in ast.walk(fwalk) if isinstance(n_, ast.Compare) and len(n_.ops) == 1 and isinstance(n_.ops[0], (ast.In, ast.NotIn)) and isinstance(n_.left, ast.Constant) and n_.left.value in (".git", b".git") and isinstance(n_.comparators[0], ast.Name) and n_.comparators[0].id.startswith("dirnames")]
    ctx.check("git-walk-nested-by-control-entry", f"{GW}:GitWorkingTree._iter_files_recursive", bool(probes) and not listing_tests, "sub-directories are pruned through _directory_is_tree_reference() (lexists of <dir>/.git: a directory or a gitfile), not by looking for '.git' among the listed sub-directories", construct="; ".join(listing_tests), message=f"_iter_files_recursive {'tests `' + listing_tests[0] + '`' if listing_tests else 'no longer calls _directory_is_tree_reference()'}: a nested tree whose control entry is a .git *file* (submodule checkout, linked worktree) is not among the sub-directories os.walk lists, extras() yields its files one by one and clean-tree deletes the files of a nested branch")


MUTANTS = [
    Mutant("git walk looks for .git among the listed directories", "breezy/git/workingtree.py", "                if not recurse_nested and self._directory_is_tree_reference(\n                    os.fsdecode(relpath)\n                ):\n", "                if not recurse_nested and b\".git\" in dirnames and os.path.isdir(\n                    self.abspath(os.fsdecode(relpath))\n                ):\n", expect="git-walk-nested-by-control-entry"),
    Mutant("deletion after the tree lock is released", CT, "                return 0\n        delete_items(deletables, dry_run=dry_run)\n", "                return 0\n    delete_items(deletables, dry_run=dry_run)\n", expect="delete-under-scan-lock"),
    Mutant("unlink outside the dry-run guard", CT, "        if not dry_run:\n            if isdir(path):\n                shutil.rmtree(path, onerror=onerror)\n            else:", "        if isdir(path):\n            if not dry_run:\n                shutil.rmtree(path, onerror=onerror)\n        elif True:\n            if True:", expect="dry-run-deletes-nothing"),
    Mutant("unknowns yielded without the flag", CT, "        else:\n            if unknown:\n                yield tree.abspath(subp), subp\n", "        else:\n            yield tree.abspath(subp), subp\n", expect="category-guards"),
    Mutant("nested control dirs appended in the else", CT, "            else:\n                # TODO may be we need to notify user about skipped directories?\n                pass\n", "            else:\n                result.append((path, subp))\n", expect="nested-branches-kept"),
    Mutant("unfiltered list handed to delete_items", CT, "        deletables = _filter_out_nested_controldirs(deletables)\n", "", expect="deleted-set-provenance"),
    Mutant("candidates taken from all files", CT, "    for subp in tree.extras():", "    for subp in tree.all_versioned_paths():", expect="candidates-are-extras"),
    Mutant("neutral: loop variable renamed", CT, "        if isdir(path):\n            try:\n                controldir.ControlDir.open(path)", "        if isdir(path):\n            try:\n                controldir.ControlDir.open(path)  # nested?", neutral=True),
]
