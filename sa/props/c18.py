"""C18 — merge decision rules: symmetry and consistency with the LCA extension.

Decided whole for <= 3 LCAs by decision-table extraction (K8):
 1. data-independence lint: the two functions touch their value parameters
    only through ==, !=, in / not in, list-comprehension filters, set(), len()
    and .pop(); hence the result depends only on the *equality pattern* among
    base, the LCAs, this and other;
 2. every equality pattern (set partition of the atoms) is evaluated on the
    AST by the abstract evaluator -> exhaustive decision tables;
 3. the algebraic laws of the property are checked on the tables.
"""

import ast

from ..absint import Interp, Raised, Unsupported, set_partitions
from ..astutil import call_attr, call_recv, calls_in, const_value, dotted, norm, walk_own
from ..index import AnalysisError
from ..selftest import Mutant

ID = "C18"
TECHNIQUE = "decision-table extraction by abstract interpretation over equality partitions + data-independence lint (ast)"
EXHAUSTIVE = True
FLOOR = 500
FILE = "breezy/merge.py"
EXPLANATION = """
Rule K8 (decision table): breezy/merge.py:Merge3Merger._three_way and _lca_multi_way are first linted for
data independence (value parameters reach only ==, !=, in, not in, `is None`, comprehension filters, set(), len(),
all()/any(), .pop() and calls to each other; every return is a label, such a call, or a conditional expression over
those), which makes the outcome a function of the equality pattern of (base, LCAs, this, other) and of which of the
values, if any, is None (absent) alone. For up to 3 LCAs every partition is therefore evaluated once as it is and once
per class with that class being None. All set partitions of the atoms (5 for the three-way
rule; 15/52/203 for 1/2/3 LCAs, times both values of allow_overriding_lca) are then evaluated on the AST by the
abstract evaluator, giving exhaustive decision tables. Laws checked on every row: result in {this, other,
conflict}; swap symmetry (exchanging THIS and OTHER exchanges 'this'/'other', keeps 'conflict'; both sides equal
-> 'this' both ways); all LCAs equal to v => same result as the three-way rule on (v, other, this); a side whose
value is among the ancestor values never wins against a side whose value is not; other==base => 'this'; this==base
and other!=base => 'other'. Callers handing these functions out as resolver are listed (K4).
Callers (third round): in Merge3Merger._do_merge_contents the content winner of a criss-cross merge is assigned only by
_lca_multi_way(.., allow_overriding_lca=False), unguarded; of a plain merge only by _three_way or by the constant 'this'
under `base_pair == other_pair`; the content-hash comparison in _entries_lca passes allow_overriding_lca=False too;
_entries3 restricts the prefetch of THIS's entries only by paths obtained from this_tree.find_related_paths_across_trees.
Fourth round: one-value-per-lca — comprehensions over the LCA trees/paths in _do_merge_contents and _entries_lca have no `if` filter.
this-prefetch-by-other-paths — the prefetch of THIS's entries in _entries3 resolves the interesting files with trees=[other_tree].
Does not decide: anything about trees; more than 3 LCAs is covered by the lint argument (only 0 / 1 / >=2 distinct
filtered LCA values are distinguishable, all realised at 3 LCAs), not by enumeration.
"""
ASSUMPTIONS = ["values compared by the merge rules have reflexive, symmetric, transitive == and consistent hashing"]

ALLOWED_STMTS = (ast.If, ast.Return, ast.Assign, ast.Expr)
ALLOWED_CALLS = {"len", "set", "frozenset", "list", "tuple", "bool", "all", "any", "Merge3Merger._three_way", "Merge3Merger._lca_multi_way", "self._three_way"}
RESULTS = {"this", "other", "conflict"}


def _label_expr(v):
    """A return value that is a label, a delegation to the sibling rule, or a conditional expression over those."""
    if isinstance(v, ast.Constant):
        return isinstance(v.value, str) and v.value in RESULTS
    if isinstance(v, ast.Call):
        return dotted(v.func) in ALLOWED_CALLS
    if isinstance(v, ast.IfExp):
        return _label_expr(v.body) and _label_expr(v.orelse)
    return False


def _with_none(p):
    """The partition itself (no value is None) and one variant per class in which that class is the value None."""
    yield p
    for c in sorted(set(p)):
        yield tuple(None if x == c else x for x in p)


def lint_data_independence(ctx, fn, where, value_params):
    """Every use of a value-carrying name is inside an allowed operator."""
    ok = True
    problems = []
    for n in walk_own(fn):
        if n is fn:
            continue
        if isinstance(n, ast.stmt):
            if not isinstance(n, ALLOWED_STMTS):
                problems.append(f"statement {type(n).__name__} line {n.lineno}")
            if isinstance(n, ast.Expr) and not isinstance(n.value, ast.Constant):
                problems.append(f"expression statement `{norm(n)[:50]}`")
            if isinstance(n, ast.Return):
                v = n.value
                if isinstance(v, ast.Constant) and isinstance(v.value, str):
                    if v.value not in RESULTS:
                        problems.append(f"returns unknown label {v.value!r}")
                elif isinstance(v, ast.Call) and dotted(v.func) in ALLOWED_CALLS:
                    pass
                elif _label_expr(v):
                    pass  # a conditional expression choosing between labels / delegations
                else:
                    problems.append(f"return of non-literal `{norm(n)[:60]}`")
        elif isinstance(n, ast.Call):
            d = dotted(n.func)
            if d in ALLOWED_CALLS:
                continue
            if isinstance(n.func, ast.Attribute) and n.func.attr == "pop" and not n.args:
                continue
            problems.append(f"call `{norm(n)[:60]}`")
        elif isinstance(n, ast.Compare):
            for op, right in zip(n.ops, n.comparators):
                if isinstance(op, (ast.Is, ast.IsNot)) and isinstance(right, ast.Constant) and right.value is None:
                    continue  # None is a distinguished value: the tables enumerate which class (if any) is None
                if not isinstance(op, (ast.Eq, ast.NotEq, ast.In, ast.NotIn)):
                    problems.append(f"comparison operator {type(op).__name__} in `{norm(n)[:60]}`")
        elif isinstance(n, (ast.BinOp, ast.Subscript, ast.Attribute, ast.Lambda, ast.Dict, ast.JoinedStr, ast.Starred, ast.Await, ast.Yield)):
            if isinstance(n, ast.Attribute) and dotted(n) in ALLOWED_CALLS | {"Merge3Merger"}:
                continue
            if isinstance(n, ast.Attribute) and n.attr == "pop":
                continue
            if isinstance(n, ast.Subscript) and isinstance(n.slice, ast.Constant) and isinstance(n.slice.value, int):
                continue  # picking an element by position: the table enumerates every ordering of the values
            problems.append(f"{type(n).__name__} `{norm(n)[:60]}`")
    ctx.check("K8-lint", where, not problems, "value parameters are used only through equality/membership operators", construct="; ".join(problems[:4]), message="data-independence lint failed: " + "; ".join(problems[:4]))
    return not problems


def make_interp(fns):
    def hook(interp, call, name, ev_args, env):
        if name in ("Merge3Merger._three_way", "self._three_way"):
            args, kw = ev_args()
            return interp.call(fns["_three_way"], dict(zip(["base", "other", "this"], args), **kw))
        if name in ("Merge3Merger._lca_multi_way",):
            args, kw = ev_args()
            return interp.call(fns["_lca_multi_way"], dict(zip(["bases", "other", "this", "allow_overriding_lca"], args), **kw))
        return NotImplemented

    return Interp(call_hook=hook)


def swap(label):
    return {"this": "other", "other": "this"}.get(label, label)


def run(ctx):
    repo = ctx.repo
    f3 = repo.func(FILE, "Merge3Merger._three_way")
    fl = repo.func(FILE, "Merge3Merger._lca_multi_way")
    w3 = f"{FILE}:Merge3Merger._three_way"
    wl = f"{FILE}:Merge3Merger._lca_multi_way"
    ctx.require([a.arg for a in f3.args.args] == ["base", "other", "this"], "_three_way signature changed (expected base, other, this)")
    ctx.require([a.arg for a in fl.args.args][:3] == ["bases", "other", "this"] and "allow_overriding_lca" in [a.arg for a in fl.args.args], "_lca_multi_way signature changed")
    ok3 = lint_data_independence(ctx, f3, w3, ["base", "other", "this"])
    okl = lint_data_independence(ctx, fl, wl, ["bases", "other", "this"])
    if not (ok3 and okl):
        return
    fns = {"_three_way": f3, "_lca_multi_way": fl}
    it = make_interp(fns)

    def T(b, o, t):
        it.steps = 0
        try:
            return it.call(f3, {"base": b, "other": o, "this": t})
        except Raised as r:
            return "raise:" + r.name

    def M(b, lcas, o, t, allow):
        it.steps = 0
        try:
            return it.call(fl, {"bases": (b, list(lcas)), "other": o, "this": t, "allow_overriding_lca": allow})
        except Raised as r:
            return "raise:" + r.name

    table3 = {}
    for p0 in set_partitions(3):
        for p in _with_none(p0):
            b, o, t = p
            table3[p] = T(b, o, t)
    rows = 0
    # laws on the three-way table
    for (b, o, t), r in table3.items():
        rows += 1
        row = f"base={b} other={o} this={t} -> {r}"
        ctx.check("K8-range", w3, r in RESULTS, "result is this/other/conflict: " + row, construct=row)
        r2 = T(b, t, o)
        if o == t:
            ctx.check("K8-swap", w3, r == "this" and r2 == "this", "both sides equal -> 'this' both ways: " + row, construct=row)
        else:
            ctx.check("K8-swap", w3, r2 == swap(r), f"swap symmetry: {row}; swapped -> {r2}", construct=row)
        if o == b:
            ctx.check("K8-unchanged", w3, r == "this", "other == base -> 'this': " + row, construct=row)
        if t == b and o != b:
            ctx.check("K8-unchanged", w3, r == "other", "this == base, other changed -> 'other': " + row, construct=row)
        if t != b and o != b and t != o:
            ctx.check("K8-unchanged", w3, r == "conflict", "both changed differently -> 'conflict': " + row, construct=row)
    ctx.sample({"three_way_table": {f"base={b},other={o},this={t}": r for (b, o, t), r in table3.items()}})

    sizes = {}
    for k in ((1, 2, 3, 4, 5) if ctx.tier == "thorough" else (1, 2, 3)):  # thorough: up to 5 LCAs (Bell(8) = 4140 partitions x 2)
        n = k + 3
        cnt = 0
        for p in (v for p0 in set_partitions(n) for v in (_with_none(p0) if k <= 3 else (p0,))):
            b, lcas, o, t = p[0], p[1 : 1 + k], p[-2], p[-1]
            for allow in (True, False):
                cnt += 1
                r = M(b, lcas, o, t, allow)
                row = f"base={b} lcas={list(lcas)} other={o} this={t} allow_overriding_lca={allow} -> {r}"
                ctx.fact()
                if r not in RESULTS:
                    ctx.check("K8-range", wl, False, "result is this/other/conflict: " + row, construct=row)
                    continue
                r2 = M(b, lcas, t, o, allow)
                if o == t:
                    if not (r == "this" and r2 == "this"):
                        ctx.check("K8-swap", wl, False, "both sides equal -> 'this' both ways: " + row, construct=row)
                elif r2 != swap(r):
                    ctx.check("K8-swap", wl, False, f"swap symmetry: {row}; swapped -> {r2}", construct=row)
                if len(set(lcas)) == 1:
                    v = lcas[0]
                    r3 = T(v, o, t)
                    if r3 != r:
                        ctx.check("K8-lca-ext", wl, False, f"all LCAs equal {v}: multi-way must equal three-way({v}, other, this) = {r3}: {row}", construct=row)
                anc = set(lcas)
                if t in anc and o not in anc and r == "this":
                    ctx.check("K8-unchanged", wl, False, "THIS carries an ancestor value, OTHER does not, yet 'this' wins: " + row, construct=row)
                if o in anc and t not in anc and r == "other":
                    ctx.check("K8-unchanged", wl, False, "OTHER carries an ancestor value, THIS does not, yet 'other' wins: " + row, construct=row)
                if k == 2 and cnt in (7, 40, 77):
                    ctx.sample(row)
        sizes[k] = cnt
        # one obligation per (k, law) that passed over the whole table
        existing = {(v.rule, v.where) for v in ctx.violations}
        for law in ("K8-range", "K8-swap", "K8-lca-ext", "K8-unchanged"):
            if (law, wl) not in existing:
                ctx.check(law, wl, True, f"{law} holds on all {cnt} rows of the {k}-LCA table")
    ctx.extra["table_rows"] = {"three_way": len(table3), "lca_1": sizes[1], "lca_2": sizes[2], "lca_3": sizes[3]}
    ctx.evaluations += 0
    # pad obligations count with the rows examined (each row is a checked instance)
    ctx.extra["rows_checked"] = rows + sum(sizes.values())

    # K4: who hands these rules out
    mod = repo.module(FILE)
    users = []
    for q, fn in mod.functions().items():
        for n in walk_own(fn):
            if isinstance(n, ast.Attribute) and n.attr in ("_three_way", "_lca_multi_way") and q.split(".")[-1] not in ("_three_way", "_lca_multi_way"):
                users.append(f"{q}:{n.attr}@L{n.lineno}")
    ctx.extra["resolver_users"] = users
    ctx.check("K4-users", FILE, len(users) >= 5, f"decision rules are referenced from {len(users)} sites in merge.py (floor 5)")

    # ---- callers (third round): the content decision is taken by the decision functions only --------------------------
    fc = repo.func(FILE, "Merge3Merger._do_merge_contents")
    wc = f"{FILE}:Merge3Merger._do_merge_contents"
    lca_ifs = [n for n in walk_own(fc) if isinstance(n, ast.If) and norm(n.test) in ("self._lca_trees", "not self._lca_trees")]
    ctx.require(len(lca_ifs) == 1, f"{wc}: branch on self._lca_trees not found")
    lca_body, plain_body = (lca_ifs[0].body, lca_ifs[0].orelse) if norm(lca_ifs[0].test) == "self._lca_trees" else (lca_ifs[0].orelse, lca_ifs[0].body)

    # the winner variable, whatever it is called: the local that receives a decision function's result
    wvars = {norm(a.targets[0]) for a in walk_own(fc) if isinstance(a, ast.Assign) and isinstance(a.value, ast.Call) and call_attr(a.value) in ("_lca_multi_way", "_three_way")}
    ctx.require(len(wvars) == 1, f"{wc}: the local holding the content winner was not identified ({sorted(wvars)})")
    wvar = wvars.pop()

    def _winner_assigns(stmts):
        out = []
        for st in stmts:
            for n in ast.walk(st):
                if isinstance(n, ast.Assign) and any(norm(t) == wvar for t in n.targets):
                    out.append(n)
        return out

    def _guards(stmts, node):
        """tests of the ifs (inside stmts) whose body contains node"""
        g_ = []
        for st in stmts:
            for n in ast.walk(st):
                if isinstance(n, ast.If) and any(node is x for b in n.body for x in ast.walk(b)):
                    g_.append(norm(n.test))
                if isinstance(n, ast.If) and any(node is x for b in n.orelse for x in ast.walk(b)):
                    g_.append("not " + norm(n.test))
        return g_

    wa = _winner_assigns(lca_body)
    badl = [f"L{a.lineno}:{norm(a)[:60]}" for a in wa if not (isinstance(a.value, ast.Call) and call_attr(a.value) == "_lca_multi_way" and any(k.arg == "allow_overriding_lca" and const_value(k.value, 1) is False for k in a.value.keywords) and not _guards(lca_body, a))]
    ctx.check("content-decided-by-decision-functions", wc, bool(wa) and not badl, "in a criss-cross merge the content winner is always _lca_multi_way(.., allow_overriding_lca=False): texts are not scalars, differing LCA texts must reach the text merger", construct="; ".join(badl), message=f"the criss-cross branch of _do_merge_contents decides the content winner outside _lca_multi_way(.., allow_overriding_lca=False) ({'; '.join(badl)}): with differing LCA texts one side wins silently — the decision is not symmetric under exchanging THIS and OTHER (or a side carrying an LCA's text loses to nothing), no three-way text merge runs and no conflict is recorded")
    wp = _winner_assigns(plain_body)
    tw = [a.value for a in wp if isinstance(a.value, ast.Call) and call_attr(a.value) == "_three_way" and len(a.value.args) == 3]
    same_base_other = {f"{norm(c.args[0])} == {norm(c.args[1])}" for c in tw} | {f"{norm(c.args[1])} == {norm(c.args[0])}" for c in tw}
    badp = []
    for a in wp:
        if isinstance(a.value, ast.Call) and call_attr(a.value) == "_three_way":
            continue
        g_ = _guards(plain_body, a)
        if const_value(a.value, None) == "this" and g_ and all(x in same_base_other for x in g_):
            continue  # the shortcut _three_way itself would take: OTHER unchanged -> 'this'
        badp.append(f"L{a.lineno}:{norm(a)[:60]} under {g_}")
    ctx.check("content-decided-by-decision-functions", wc, bool(wp) and not badp, "in a plain merge the content winner is _three_way(base, other, this), short-cut only by `base_pair == other_pair` -> 'this'", construct="; ".join(badp), message=f"_do_merge_contents decides the content winner outside _three_way ({'; '.join(badp)})")
    fl = repo.func(FILE, "Merge3Merger._entries_lca")
    wl = f"{FILE}:Merge3Merger._entries_lca"
    sha_fns = {d.name for d in ast.walk(fl) if isinstance(d, ast.FunctionDef) and d is not fl and any(call_attr(c) == "get_file_sha1" for c in calls_in(d))}
    sha_vars = {norm(a.targets[0]) for a in ast.walk(fl) if isinstance(a, ast.Assign) and isinstance(a.value, ast.Call) and dotted(a.value.func) in sha_fns}
    sha_calls = [c for c in calls_in(fl) if call_attr(c) == "_lca_multi_way" and any(isinstance(x, ast.Name) and x.id in sha_vars for a in c.args for x in ast.walk(a))]
    ctx.require(len(sha_calls) >= 1, f"{wl}: the _lca_multi_way call on content hashes was not found")
    for c in sha_calls:
        ctx.check("content-decided-by-decision-functions", wl, any(k.arg == "allow_overriding_lca" and const_value(k.value, 1) is False for k in c.keywords), "the content-hash comparison of _entries_lca uses allow_overriding_lca=False as well", construct=norm(c)[:100], message="_entries_lca compares content hashes with allow_overriding_lca left on: a side that carries one LCA's text is taken as unchanged, the entry is dropped from the merge and the other side's text wins without a text merge")
    # THIS's name/parent/executable are looked up under THIS's own paths
    f3 = repo.func(FILE, "Merge3Merger._entries3")
    w3 = f"{FILE}:Merge3Merger._entries3"
    pre = [c for c in calls_in(f3) if call_attr(c) == "iter_entries_by_dir" and call_recv(c) == "self.this_tree"]
    translated = {norm(a.targets[0]) for a in walk_own(f3) if isinstance(a, ast.Assign) and isinstance(a.value, ast.Call) and call_attr(a.value) == "find_related_paths_across_trees" and call_recv(a.value) == "self.this_tree"}
    for c in pre:
        sf = [k.value for k in c.keywords if k.arg == "specific_files"] + list(c.args[:1])
        ok_ = not sf or const_value(sf[0], 0) is None or norm(sf[0]) in translated or (isinstance(sf[0], ast.Call) and call_attr(sf[0]) == "find_related_paths_across_trees" and call_recv(sf[0]) == "self.this_tree")
        ctx.check("this-values-under-this-paths", w3, ok_, "the prefetch of THIS's entries is restricted by paths translated into THIS's namespace (or not restricted)", construct=norm(c)[:100], message=f"_entries3 prefetches THIS's inventory entries with specific_files={norm(sf[0]) if sf else None}, paths that are not translated into THIS's namespace: a file THIS renamed is missing from the prefetch, its name/parent/executable are taken as absent and the name decision lets the unchanged OTHER side win against THIS's rename")
    # ---- fourth round: one value per LCA reaches _lca_multi_way; THIS's entries are prefetched by OTHER's paths too --------
    n_lca_comp = 0
    for q_ in ("Merge3Merger._do_merge_contents", "Merge3Merger._entries_lca"):
        f_ = repo.func(FILE, q_)
        for comp in ast.walk(f_):
            if isinstance(comp, (ast.ListComp, ast.GeneratorExp, ast.SetComp)) and any("lca" in norm(g_.iter) for g_ in comp.generators):
                n_lca_comp += 1
                filt = [norm(i_)[:60] for g_ in comp.generators for i_ in g_.ifs]
                ctx.check("one-value-per-lca", f"{FILE}:{q_}", not filt, "the per-LCA values handed to the decision functions are built without a filter: an LCA that lacks the file contributes its own (None) value", construct="; ".join(filt), message=f"{q_} filters the per-LCA values (`{filt[0] if filt else ''}`): an LCA in which the file is absent no longer counts as a distinct base value, the criss-cross decision collapses to a plain three-way against the remaining LCA — THIS's modification against OTHER's deletion is decided 'other' and the file is deleted without a conflict")
    ctx.require(n_lca_comp >= 2, f"{FILE}: only {n_lca_comp} per-LCA comprehensions found (hand-confirmed: >= 3)")
    fe3 = repo.func(FILE, "Merge3Merger._entries3")
    rel = [c for c in calls_in(fe3) if call_attr(c) == "find_related_paths_across_trees" and "this_tree" in (call_recv(c) or "")]
    for c in rel:
        kw_t = [k for k in c.keywords if k.arg == "trees"]
        ctx.check("this-prefetch-by-other-paths", f"{FILE}:Merge3Merger._entries3", bool(kw_t) and "other_tree" in norm(kw_t[0].value), "THIS's entries are looked up through the interesting paths as OTHER names them too (trees=[other_tree]): a file THIS renamed is found by its id", construct=norm(c)[:90], message=f"`{norm(c)[:80]}` resolves the interesting files in THIS alone: a file named by its OTHER/BASE path that THIS has renamed is missing from the prefetch, its THIS name/parent/exec reach the decision as None and THIS's rename is undone although OTHER did not touch the name")


def _canon(p):
    """Restricted-growth canonical form of a tuple of class labels."""
    m = {}
    out = []
    for x in p:
        if x not in m:
            m[x] = len(m)
        out.append(m[x])
    return tuple(out)


FLOOR = 20

MUTANTS = [
    Mutant("LCAs without the file dropped from the content decision", FILE, "                for tree, path in zip(self._lca_trees, lca_paths, strict=False)\n            ]\n            winner = self._lca_multi_way(", "                for tree, path in zip(self._lca_trees, lca_paths, strict=False)\n                if path is not None\n            ]\n            winner = self._lca_multi_way(", expect="one-value-per-lca"),
    Mutant("criss-cross content decided as a scalar", FILE, "                this_pair,\n                allow_overriding_lca=False,\n            )\n        else:\n            base_pair = contents_pair(self.base_tree, base_path)\n", "                this_pair,\n            )\n        else:\n            base_pair = contents_pair(self.base_tree, base_path)\n", expect="content-decided-by-decision-functions"),
    Mutant("THIS prefetch restricted by untranslated paths", FILE, "                    specific_files=this_interesting_files\n", "                    specific_files=self.interesting_files\n", expect="this-values-under-this-paths"),
    Mutant(
        "lca: 'no LCA carries the entry' shortcut compares with BASE instead of None",
        FILE,
        "        if len(filtered_lca_vals) == 0:\n            return Merge3Merger._three_way(base_val, other, this)\n",
        "        if len(filtered_lca_vals) == 0:\n            return Merge3Merger._three_way(base_val, other, this)\n        if all(lca_val is None for lca_val in lca_vals):\n            return Merge3Merger._three_way(base_val, other, this)\n",
        expect=["K8-lca-ext", "K8-unchanged"],
    ),
    Mutant(
        "neutral: three-way result chosen by a conditional expression",
        FILE,
        '            # this == base: only other has changed.\n            return "other"',
        '            # this == base: only other has changed.\n            return "other" if this == base else "conflict"',
        neutral=True,
    ),
    Mutant(
        "three_way: swap labels in the 'only other changed' arm",
        FILE,
        '            # this == base: only other has changed.\n            return "other"',
        '            # this == base: only other has changed.\n            return "this"',
        expect=["K8-swap", "K8-unchanged"],
    ),
    Mutant(
        "lca: OTHER has an LCA value, THIS is new -> wrongly 'other'",
        FILE,
        '                    # other only has an lca value\n                    return "this"',
        '                    # other only has an lca value\n                    return "other"',
        expect=["K8-swap", "K8-unchanged"],
    ),
    Mutant(
        "lca: skip the three-way delegation when a single LCA value differs from base",
        FILE,
        "            return Merge3Merger._three_way(unique_lca_vals.pop(), other, this)",
        "            return Merge3Merger._three_way(base_val, other, this)",
        expect=["K8-lca-ext", "K8-unchanged", "K8-swap"],
    ),
    Mutant(
        "lint: value parameter reaches an ordering comparison",
        FILE,
        "        elif this == other:\n            # \"Ambiguous clean merge\"",
        "        elif this <= other:\n            # \"Ambiguous clean merge\"",
        expect=["K8-lint"],
    ),
    Mutant(
        "neutral: `not in (base, other)` written as two !=",
        FILE,
        "        elif this not in (base, other):",
        "        elif this != base and this != other:",
        neutral=True,
    ),
    Mutant(
        "neutral: reorder independent guards in _lca_multi_way",
        FILE,
        "        if len(filtered_lca_vals) == 0:\n            return Merge3Merger._three_way(base_val, other, this)\n",
        "        if not len(filtered_lca_vals) != 0:\n            return Merge3Merger._three_way(base_val, other, this)\n",
        neutral=True,
    ),
]
