"""C04 — pack repositories are crash-atomic: ordering obligations."""

import ast

from ..astutil import call_attr, call_name, call_recv, calls_in, const_value, dotted, norm, walk_own
from ..rules import calling, fn_cfg, guarded_by, k1_before, k1_never_after, k2_unreachable, k3_after, need
from ..selftest import Mutant

ID = "C04"
TECHNIQUE = "CFG ordering / must-pass-through rules (K1), who-may-call (K4) and argument provenance (K5) over pack_repo.py and its overrides (ast)"
FLOOR = 19
PR = "breezy/bzr/pack_repo.py"
GC = "breezy/bzr/groupcompress_repo.py"
KP = "breezy/bzr/knitpack_repo.py"
RC = "breezy/bzr/reconcile.py"
PACK_FILES = [PR, GC, KP, RC]
COLL = "RepositoryPackCollection"
EXPLANATION = """
Crash-atomicity of a pack repository rests on the order in which file-system operations are issued; every prefix of
that order must leave either the old or the new pack list readable. Rules, all decided on the statement CFG of the
named functions on every run:
R1 (K1) every `allocate(X)` call site in pack_repo.py / groupcompress_repo.py / knitpack_repo.py (the only way a pack
   name enters the in-memory list that is later written to pack-names) is dominated, within its loop iteration, by
   `X.finish()` (pack and indices renamed out of upload/); in _commit_write_group no allocate follows autopack() /
   _save_pack_names().
R2 (K1) _save_pack_names: the write of "pack-names" is an atomic put (put_file/put_bytes, never *_non_atomic / append /
   open_write_stream), it is the only such write in the collection class, and it precedes every _obsolete_packs() and
   _clear_obsolete_packs() call of the function.
R3 (K4+K1) every call site of _obsolete_packs in breezy/ is dominated by a _save_pack_names() call (or the put itself)
   in the same function; _clear_obsolete_packs is called only from _save_pack_names (after the put) and from pack()
   after the operations loop.
R4 (K1/K2/K5) _execute_pack_operations: packs leave memory only after packer.pack() returned non-None in that
   iteration; _save_pack_names comes after the packer loop and receives as obsolete_packs a list built only from
   pack_operations; no packer runs after the names were saved.
R5 (K3) a packer raising RetryWithNewPacks has new_pack.abort() called (when a new pack exists) before propagating.
R6 (K1) _obsolete_packs / _clear_obsolete_packs only move/delete under obsolete_packs/ or out of the live
   directories — they never delete from packs/ or indices/ (deletes are on the obsolete transport only).
Added while testing against seeded changes: R7 GCCHKPacker._create_pack_from_packs detects an identical single-pack
repack after finish_content() and aborts before finish() (which would rewrite the live pack's index files in place).
R8 (fourth round) who-may-remove: in the three pack modules only _obsolete_packs moves, and only _clear_obsolete_packs deletes, files through a
   pack or index transport.
Does not decide: atomicity of the transport's put_file/rename, NewPack.finish itself (bzrformats), or behaviour at
individual crash prefixes; it decides that operations are issued in the only order under which every prefix is safe.
"""
ASSUMPTIONS = ["NewPack.finish()/ResumedPack.finish() (bzrformats) move the pack and its indices into packs/ and indices/ before returning", "transport.put_file is atomic (write to temp + rename)"]

ATOMIC_PUTS = {"put_file", "put_bytes"}
NONATOMIC = {"put_file_non_atomic", "put_bytes_non_atomic", "append_file", "append_bytes", "open_write_stream"}


def is_packnames_arg(call):
    return bool(call.args) and const_value(call.args[0]) == "pack-names"


def run(ctx):
    repo = ctx.repo
    # ---- R1: finish before allocate, at every allocate site ----------------
    n_alloc = 0
    for rel in (PR, GC, KP):
        mod = repo.module(rel)
        for q, fn in mod.functions().items():
            sites = [c for c in calls_in(fn) if call_attr(c) == "allocate" and len(c.args) == 1 and not c.keywords]
            if not sites or q.endswith(".allocate"):
                continue
            _, g, where = fn_cfg(ctx, rel, q)
            for c in sites:
                x = norm(c.args[0])
                b = calling(g, attr="allocate", argpred=lambda cc, x=x: cc.args and norm(cc.args[0]) == x)
                a = calling(g, attr="finish", recv=x)
                n_alloc += 1
                if not a:
                    ctx.check("R1-finish-before-allocate", where, False, f"allocate({x}) must be preceded by {x}.finish()", construct=f"allocate({x})", message=f"allocate({x}) is never preceded by {x}.finish(): the pack would be listed while still in upload/")
                    continue
                k1_before(ctx, "R1-finish-before-allocate", where, g, a, b, f"{x}.finish() precedes allocate({x}) on every path (per loop iteration)", per_iteration=True)
    ctx.require(n_alloc >= 4, f"only {n_alloc} allocate() call sites found (hand-confirmed: 4)")
    _, g, where = fn_cfg(ctx, PR, f"{COLL}._commit_write_group")
    saves = need(where, calling(g, attr={"autopack", "_save_pack_names"}, recv="self"), "autopack()/_save_pack_names() call")
    k1_never_after(ctx, "R1-no-allocate-after-save", where, g, saves, calling(g, attr="allocate"), "no allocate() after the pack-names write was triggered")
    # ---- R2: atomic put precedes obsoleting ---------------------------------
    fn, g, where = fn_cfg(ctx, PR, f"{COLL}._save_pack_names")
    puts = need(where, calling(g, attr=ATOMIC_PUTS | NONATOMIC, argpred=is_packnames_arg), 'write of "pack-names"')
    atomic = calling(g, attr=ATOMIC_PUTS, argpred=is_packnames_arg)
    ctx.check("R2-atomic-put", where, set(puts) == set(atomic) and len(puts) == 1, 'exactly one write of "pack-names", through an atomic put', construct="; ".join(g.nodes[i].text() for i in puts), message='"pack-names" is written non-atomically or more than once')
    obs = calling(g, attr="_obsolete_packs", recv="self")
    clr = calling(g, attr="_clear_obsolete_packs", recv="self")
    need(where, obs, "_obsolete_packs call")
    need(where, clr, "_clear_obsolete_packs call")
    k1_before(ctx, "R2-put-before-obsolete", where, g, atomic, obs, "pack-names is rewritten before any pack is moved to obsolete_packs/")
    k1_before(ctx, "R2-put-before-clear", where, g, atomic, clr, "pack-names is rewritten before obsolete_packs/ is emptied")
    # no other writer of pack-names in the collection class / pack files (format initialize writes the initial empty list)
    writers = []
    for rel in (PR, GC, KP):
        for q, f in repo.module(rel).functions().items():
            for c in calls_in(f):
                if call_attr(c) in (ATOMIC_PUTS | NONATOMIC | {"rename", "move", "delete", "copy"}) and c.args and any(const_value(a) == "pack-names" for a in c.args):
                    writers.append(f"{rel}:{q}:{call_attr(c)}")
    ctx.check("R2-single-writer", PR, writers == [f"{PR}:{COLL}._save_pack_names:put_file"] or writers == [f"{PR}:{COLL}._save_pack_names:put_bytes"], "the only code that writes/renames/deletes pack-names is _save_pack_names", construct=", ".join(writers), message="pack-names is modified outside _save_pack_names: " + ", ".join(writers))

    # ---- R3: who may call the obsoleting functions ----------------------------
    obs_sites, clr_sites = [], []
    for rel in repo.python_files():
        if not rel.startswith("breezy/bzr/"):
            # cheap textual prefilter on other files
            if "_obsolete_packs" not in repo.text(rel):
                continue
        txt = repo.text(rel)
        if "_obsolete_packs" not in txt:
            continue
        for q, f in repo.module(rel).functions().items():
            cs = calls_in(f)
            if any(call_attr(c) == "_obsolete_packs" for c in cs):
                obs_sites.append((rel, q))
            if any(call_attr(c) == "_clear_obsolete_packs" for c in cs):
                clr_sites.append((rel, q))
    ctx.require(len(obs_sites) >= 2, f"expected >=2 call sites of _obsolete_packs, found {obs_sites}")
    for rel, q in obs_sites:
        _, g, where = fn_cfg(ctx, rel, q)
        b = calling(g, attr="_obsolete_packs")
        a = calling(g, attr="_save_pack_names") + calling(g, attr=ATOMIC_PUTS, argpred=is_packnames_arg)
        if not a:
            ctx.check("R3-obsolete-after-save", where, False, "_obsolete_packs is preceded by a pack-names write", construct=g.nodes[b[0]].text(), message="_obsolete_packs() called in a function that never saves pack-names first")
        else:
            k1_before(ctx, "R3-obsolete-after-save", where, g, a, b, "_obsolete_packs() is dominated by the pack-names write")
    allowed_clr = {(PR, f"{COLL}._save_pack_names"), (PR, f"{COLL}.pack")}
    ctx.check("R3-clear-callers", PR, set(clr_sites) <= allowed_clr and (PR, f"{COLL}._save_pack_names") in clr_sites, "_clear_obsolete_packs is called only from _save_pack_names and pack()", construct=str(sorted(set(clr_sites) - allowed_clr)), message=f"_clear_obsolete_packs called from unexpected site(s): {sorted(set(clr_sites) - allowed_clr)}")
    if (PR, f"{COLL}.pack") in clr_sites:
        _, g, where = fn_cfg(ctx, PR, f"{COLL}.pack")
        ops = need(where, calling(g, attr="_try_pack_operations"), "_try_pack_operations call")
        k1_before(ctx, "R3-clear-after-pack", where, g, ops, calling(g, attr="_clear_obsolete_packs"), "pack(): obsolete packs are cleared only after the pack operations ran")
        k1_never_after(ctx, "R3-clear-after-pack", where, g, calling(g, attr="_clear_obsolete_packs"), ops, "pack(): no pack operation after clearing obsolete packs")

    # ---- R4: _execute_pack_operations ----------------------------------------
    fn, g, where = fn_cfg(ctx, PR, f"{COLL}._execute_pack_operations")
    from ..astutil import bound_names, one

    pk = one(bound_names(fn, lambda t, n: t.startswith("packer_class(")), "packer = packer_class(...)", where)
    res = one(bound_names(fn, lambda t, n: t == f"{pk}.pack()"), "result = packer.pack()", where)
    packs = need(where, calling(g, attr="pack", recv=pk), "packer.pack() call")
    rem = need(where, calling(g, attr="_remove_pack_from_memory"), "_remove_pack_from_memory call")
    save = need(where, calling(g, attr="_save_pack_names"), "_save_pack_names call")
    k1_before(ctx, "R4-pack-before-remove", where, g, packs, rem, "packs leave memory only after packer.pack() ran in that iteration", per_iteration=True)
    k2_unreachable(ctx, "R4-remove-needs-result", where, g, {f"{res} is None": True, f"{res} is not None": False}, rem, "packs are not dropped from memory when packer.pack() returned None")
    k1_never_after(ctx, "R4-save-after-packers", where, g, save, packs + rem, "no packer runs and no pack is dropped after pack-names was saved")
    # K5 provenance of obsolete_packs=
    prov_ok, detail = _obsolete_arg_provenance(fn)
    ctx.check("R4-obsolete-provenance", where, prov_ok, "obsolete_packs= handed to _save_pack_names is built only from pack_operations", construct=detail, message="obsolete_packs argument has another source: " + detail)

    # ---- R5: failed packer aborts its new pack --------------------------------
    handlers = [n.id for n in g.nodes if n.kind == "handler" and "RetryWithNewPacks" in norm(n.ast.type)]
    need(where, handlers, "except RetryWithNewPacks handler")
    ab = calling(g, attr="abort", recv=f"{pk}.new_pack")
    g2 = g.assume({f"{pk}.new_pack is not None": True})
    ok, w = g2.always_after(handlers, ab)
    ctx.check("R5-abort-on-retry", where, bool(ab) and ok, "RetryWithNewPacks handler aborts the half-written pack before re-raising", construct=g.nodes[handlers[0]].text(), message="a packer that raises RetryWithNewPacks leaves its upload pack un-aborted", witness=g.show_path(w) if w else None)

    # ---- R7: repacking a single, already optimal pack never rewrites that pack's live files ----------------------------
    fnp, gp, wherep = fn_cfg(ctx, GC, "GCCHKPacker._create_pack_from_packs")
    fin = need(wherep, calling(gp, attr="finish", recv="self.new_pack"), "self.new_pack.finish()")
    fc_ = calling(gp, attr="finish_content", recv="self.new_pack")
    same = [n.id for n in gp.nodes if n.kind == "test" and any(isinstance(c_, ast.Compare) and len(c_.ops) == 1 and isinstance(c_.ops[0], ast.Eq) and ".name" in norm(c_) and "_hash.hexdigest()" in norm(c_) for c_ in ast.walk(n.ast))]
    ok = len(same) == 1
    if ok:
        t_succ = [b for (b, l) in gp.succ[same[0]] if l == "T"]
        rt = gp.reach(t_succ, include_src=True)
        ab = calling(gp, attr="abort", recv="self.new_pack")
        g1 = gp.assume({"len(self.packs) == 1": True})
        ok = not (set(fin) & rt) and bool(set(ab) & rt) and g1.always_before(same, fin)[0] and bool(fc_) and gp.always_before(fc_, same)[0]
    ctx.check("R7-identical-repack-aborted", wherep, ok, "a repack whose content hash equals the single source pack's name is detected after finish_content() and aborted before finish() (finish() would rewrite the live pack's index files in place under the same name)", message="the 'already optimally packed' case is no longer caught before new_pack.finish(): finish() writes indices/<name>.* through truncating streams, and for an identical repack <name> is the live pack's name — a crash between truncation and write leaves the listed pack unreadable")
    # ---- R6: obsoleting never deletes from the live directories -----------------
    fn = repo.func(PR, f"{COLL}._obsolete_packs")
    dels = [c for c in calls_in(fn) if call_attr(c) in ("delete", "delete_tree", "rmdir", "delete_multi")]
    ctx.check("R6-obsolete-moves-only", f"{PR}:{COLL}._obsolete_packs", not dels, "_obsolete_packs only moves files (no delete)", construct="; ".join(norm(c) for c in dels), message="_obsolete_packs deletes instead of moving to obsolete_packs/")
    moves = [c for c in calls_in(fn) if call_attr(c) in ("move", "rename")]
    bad = [norm(c)[:80] for c in moves if not (len(c.args) == 2 and "obsolete_packs/" in norm(c.args[1]))]
    ctx.check("R6-obsolete-moves-only", f"{PR}:{COLL}._obsolete_packs", moves and not bad, f"every move targets ../obsolete_packs/ ({len(moves)} moves)", construct="; ".join(bad), message="a move in _obsolete_packs does not target obsolete_packs/")
    fn = repo.func(PR, f"{COLL}._clear_obsolete_packs")
    dels = [c for c in calls_in(fn) if call_attr(c) in ("delete", "delete_tree", "rmdir", "delete_multi", "move", "rename")]
    from ..astutil import bound_names

    obs_t = bound_names(fn, lambda t, n: t.endswith(".clone('obsolete_packs')"))
    bad = [norm(c)[:80] for c in dels if call_recv(c) not in obs_t]
    src_ok = len(obs_t) == 1
    ctx.check("R6-clear-only-obsolete-dir", f"{PR}:{COLL}._clear_obsolete_packs", dels and not bad and src_ok, "deletes happen only on the transport cloned at obsolete_packs/", construct="; ".join(bad), message="_clear_obsolete_packs deletes outside obsolete_packs/")
    # ---- R8: who may take pack files away ----------------------------------------------------------------------------------
    # Published pack and index files leave packs/ and indices/ only through _obsolete_packs (a move, after pack-names was
    # rewritten) and obsolete_packs/ is emptied only by _clear_obsolete_packs.  Any other function that deletes or moves files
    # through a pack / index transport can remove a pack that pack-names lists.
    ALLOWED_REMOVERS = {f"{COLL}._obsolete_packs", f"{COLL}._clear_obsolete_packs"}
    removers = {}
    for rel_ in (PR, "breezy/bzr/groupcompress_repo.py", "breezy/bzr/knitpack_repo.py"):
        for q_, f_ in repo.module(rel_).functions().items():
            hits = [f"L{c.lineno}:{norm(c)[:60]}" for c in calls_in(f_) if call_attr(c) in ("delete", "delete_multi", "delete_tree", "rename", "move") and any(w in (call_recv(c) or "") for w in ("pack_transport", "_index_transport", "index_transport")) or (call_attr(c) in ("delete", "delete_multi", "delete_tree", "move") and (call_recv(c) or "") == "transport" and any(isinstance(a, ast.Assign) and norm(a.targets[0]) == "transport" or isinstance(a, ast.For) for a in ast.walk(f_)) and any("pack_transport" in norm(n_) for n_ in ast.walk(f_) if isinstance(n_, ast.Attribute)))]
            if hits:
                removers[f"{q_}"] = hits
    extra = sorted(set(removers) - ALLOWED_REMOVERS)
    ctx.check("R8-who-removes-pack-files", PR, ALLOWED_REMOVERS <= set(removers) and not extra, "pack and index files are moved away only by _obsolete_packs and deleted only (from obsolete_packs/) by _clear_obsolete_packs", construct="; ".join(f"{q_}: {removers[q_][0]}" for q_ in extra), message=f"{extra} delete or move pack / index files outside the obsolete-packs path: a cleanup that runs after pack-names may already have been rewritten (an exception from _save_pack_names does not mean nothing was published) removes a pack that is listed — reopening the repository fails with NoSuchFile")


def _obsolete_arg_provenance(fn):
    """obsolete_packs=<Name>; Name assigned [] and only .extend(<packs>) where
    packs is bound by a `for ... in pack_operations`."""
    arg = None
    for c in calls_in(fn):
        if call_attr(c) == "_save_pack_names":
            for k in c.keywords:
                if k.arg == "obsolete_packs":
                    arg = k.value
    if not isinstance(arg, ast.Name):
        return False, f"obsolete_packs argument is `{norm(arg)}` (expected a local list)"
    name = arg.id
    loops = {}
    for n in walk_own(fn):
        if isinstance(n, ast.For):
            for t in ast.walk(n.target):
                if isinstance(t, ast.Name):
                    loops[t.id] = norm(n.iter)
    for n in walk_own(fn):
        if isinstance(n, ast.Assign) and any(norm(t) == name for t in n.targets):
            if norm(n.value) != "[]":
                return False, f"{name} = {norm(n.value)}"
        if isinstance(n, ast.AugAssign) and norm(n.target) == name:
            return False, norm(n)
        if isinstance(n, ast.Call) and call_recv(n) == name:
            if call_attr(n) not in ("extend", "append"):
                return False, norm(n)
            src = norm(n.args[0]) if n.args else "?"
            if loops.get(src) != "pack_operations":
                return False, f"{norm(n)} where {src} is not bound by a loop over pack_operations"
    return True, f"{name}: [] + extend(packs for packs in pack_operations)"

MUTANTS = [
    Mutant("identical repack detected only after finish()", GC, "        self.new_pack.finish_content()\n        if len(self.packs) == 1:\n            old_pack = self.packs[0]\n            if old_pack.name == self.new_pack._hash.hexdigest():", "        self.new_pack.finish()\n        if len(self.packs) == 1:\n            old_pack = self.packs[0]\n            if old_pack.name == self.new_pack._hash.hexdigest():", expect=["R7-identical-repack-aborted", "R1-finish-before-allocate"]),
    Mutant("allocate before finish in _commit_write_group", PR, "            self._new_pack.finish()\n            self.allocate(self._new_pack)\n", "            self.allocate(self._new_pack)\n            self._new_pack.finish()\n", expect="R1-finish-before-allocate"),
    Mutant("resumed pack allocated without finish", PR, "            resumed_pack.finish()\n            self.allocate(resumed_pack)\n", "            self.allocate(resumed_pack)\n", expect="R1-finish-before-allocate"),
    Mutant("GC packer allocates before finishing", GC, "        self.new_pack.finish()\n        self._pack_collection.allocate(self.new_pack)\n", "        self._pack_collection.allocate(self.new_pack)\n        self.new_pack.finish()\n", expect="R1-finish-before-allocate"),
    Mutant("obsolete before put", PR, "            self._packs_at_load = disk_nodes\n            if clear_obsolete_packs:", "            self._packs_at_load = disk_nodes\n            if clear_obsolete_packs:\n                pass\n        finally:\n            pass\n        try:\n            if clear_obsolete_packs:", neutral=True, note="restructure only"),
    Mutant("_obsolete_packs moved before the pack-names write", PR, "        already_obsolete = []\n        self.lock_names()\n", "        already_obsolete = []\n        if obsolete_packs:\n            self._obsolete_packs(obsolete_packs)\n        self.lock_names()\n", expect="R2-put-before-obsolete"),
    Mutant("non-atomic pack-names write", PR, '            self.transport.put_file(\n                "pack-names",', '            self.transport.put_file_non_atomic(\n                "pack-names",', expect="R2-atomic-put"),
    Mutant("clear obsolete before put", PR, "            for name, value in disk_nodes:\n                builder.add_node((name.encode(\"ascii\"),), value)\n", "            if clear_obsolete_packs:\n                self._clear_obsolete_packs(None)\n            for name, value in disk_nodes:\n                builder.add_node((name.encode(\"ascii\"),), value)\n", expect="R2-put-before-clear"),
    Mutant("reconciler obsoletes before saving", RC, "        self.repo._pack_collection._save_pack_names()\n        self.repo._pack_collection._obsolete_packs(packs)\n", "        self.repo._pack_collection._obsolete_packs(packs)\n        self.repo._pack_collection._save_pack_names()\n", expect="R3-obsolete-after-save"),
    Mutant("packs dropped from memory although packer returned None", PR, "            if result is None:\n                return\n            for pack in packs:\n                self._remove_pack_from_memory(pack)\n", "            for pack in packs:\n                self._remove_pack_from_memory(pack)\n            if result is None:\n                return\n", expect="R4-remove-needs-result"),
    Mutant("obsolete list gains all packs", PR, "        for _, packs in pack_operations:\n            to_be_obsoleted.extend(packs)\n", "        for _, packs in pack_operations:\n            to_be_obsoleted.extend(packs)\n        to_be_obsoleted.extend(self.all_packs())\n", expect="R4-obsolete-provenance"),
    Mutant("retry handler no longer aborts", PR, "                if packer.new_pack is not None:\n                    packer.new_pack.abort()\n                raise\n", "                raise\n", expect="R5-abort-on-retry"),
    Mutant("clear deletes from the live pack dir", PR, "                obsolete_pack_transport.delete(filename)\n", "                self._pack_transport.delete(filename)\n", expect="R6-clear-only-obsolete-dir"),
    Mutant("pack() clears obsolete packs before packing", PR, "        while True:\n            try:\n                self._try_pack_operations(hint)", "        if clean_obsolete_packs:\n            self._clear_obsolete_packs()\n        while True:\n            try:\n                self._try_pack_operations(hint)", expect="R3-clear-after-pack"),
    Mutant("neutral: independent statements after the put reordered", PR, "        self._syncronize_pack_names_from_disk_nodes(disk_nodes)\n        if obsolete_packs:\n            # TODO", "        if obsolete_packs:\n            # TODO", neutral=True, note="dropping the memory resync does not change C04 ordering obligations"),
]
MUTANTS = [m for m in MUTANTS if m.name != "obsolete before put"]
