"""C16 — uncommit undoes commit: effect whitelist, ordering, guards (Python + Rust-lite)."""

import ast
import re

from ..astutil import call_attr, call_recv, calls_in, norm, walk_own
from ..rules import calling, fn_cfg, k1_before, k2_unreachable, need
from ..rustlite import RustFile, early_return_guard, match_brace, top_level_statements
from ..selftest import Mutant

ID = "C16"
TECHNIQUE = "effect whitelist on the tree parameter (K4), CFG ordering/guards in uncommit() (K1/K2), Rust-lite guard dominance in remove_tags (K10)"
FLOOR = 16
UC = "breezy/uncommit.py"
BI = "breezy/builtins.py"
RS = "src/uncommit.rs"
EXPLANATION = """
R1 (K4 effect whitelist) breezy/uncommit.py:uncommit uses its `tree` parameter only through lock_write, unlock,
   get_parent_ids and set_parent_ids (and stores it in the unlock list): uncommit never modifies working-tree files;
   cmd_uncommit hands the tree only to uncommit() and read-only queries.
R2 (K1/K2) every state change (both set_last_revision_info calls, tree.set_parent_ids, remove_tags) is unreachable under
   dry_run; the master tip moves before the local tip; a bound branch whose master moved is refused
   (BoundBranchOutOfDate) before anything changes.
R3 (K5) the new parent list is [new tip] + reversed(pending_merges); pending_merges starts from the tree's current
   pending merges and gains reversed(parents[1:]) of every removed mainline revision (the two reversals cancel, keeping
   the original order); the new tip is the left-hand ancestor found by the mainline walk.
R4 (K2/K10) tags: remove_tags is called only when the branch supports tags and keep_tags is false, with
   (branch, graph, old_tip, parents); in src/uncommit.rs a tag is deleted only after the `!ancestors.contains(&revid)`
   guard continued past it, and `ancestors` is find_unique_ancestors(old_tip, parents).
R5 (K3 lock discipline) when some delete_tag implementation propagates to the master through get_master_branch() (a fresh
   object taking its own write lock), uncommit() has released its own write lock on the master on every path before it
   calls remove_tags.
R6 (third round) every delete_tag that repeats the deletion in the master does so under suppress(NoSuchTag) / a handler for
   it: a tag the master lacks does not stop the local deletion half way through uncommit.
R7 with local=True (only the bound branch loses the revisions) remove_tags must not be reachable while a delete_tag
   implementation writes the master's tags (known finding on this tree).
Does not decide: that the reconstructed pending merges equal the pre-commit ones for arbitrary histories.
"""

#: locals of uncommit() by what they hold (astutil.bind_roles); the rules below use these role names
UNCOMMIT_ROLES = {
    "master": ("assign", "branch.get_master_branch()"),
    "old_revno": ("assign", "branch.last_revision_info()", 0),
    "old_tip": ("assign", "branch.last_revision_info()", 1),
    "new_revno": ("assign", "revno - 1"),
    "new_revision_id": ("assign", "{old_tip}"),
    "graph": ("assign", "branch.repository.get_graph()"),
    "rev_id": ("for", "{graph}.iter_lefthand_ancestry({old_tip})"),
    "parents": ("assign", "[{new_revision_id}]"),
}

TREE_ALLOWED = {"lock_write", "unlock", "get_parent_ids", "set_parent_ids"}


def run(ctx):
    repo = ctx.repo
    fn, g, where = fn_cfg(ctx, UC, "uncommit", roles=UNCOMMIT_ROLES)
    # ---- R1 -----------------------------------------------------------------
    used = {}
    passed = []
    # the list of objects to unlock at the end: bound to [] and iterated by the loop that calls .unlock()
    unl = [norm(a) for l_ in walk_own(fn) if isinstance(l_, ast.For) and any(call_attr(c) == "unlock" and call_recv(c) == norm(l_.target) for c in calls_in(l_)) for a in ([l_.iter.args[0]] if isinstance(l_.iter, ast.Call) and norm(l_.iter.func) == "reversed" else [l_.iter])]
    for n in walk_own(fn):
        if isinstance(n, ast.Call):
            if call_recv(n) == "tree":
                used.setdefault(call_attr(n), 0)
                used[call_attr(n)] += 1
            for a in list(n.args) + [k.value for k in n.keywords]:
                if isinstance(a, ast.Name) and a.id == "tree" and not (call_attr(n) == "append" and call_recv(n) in unl):
                    passed.append(norm(n)[:70])
    aliases = [norm(s) for s in walk_own(fn) if isinstance(s, ast.Assign) and isinstance(s.value, ast.Name) and s.value.id == "tree"]
    bad = sorted(set(used) - TREE_ALLOWED)
    ctx.check("R1-tree-effects", where, not bad and not passed and not aliases and len(used) >= 3, f"tree is used only through {sorted(used)}", construct=", ".join(bad + passed + aliases), message=f"uncommit touches the working tree through {bad + passed + aliases}: it may modify working-tree files")
    fcmd = repo.func(BI, "cmd_uncommit.run") if repo.has(BI, "cmd_uncommit.run") else None
    fc2 = repo.func(BI, "cmd_uncommit._run") if repo.has(BI, "cmd_uncommit._run") else None
    for f in (fcmd, fc2):
        if f is None:
            continue
        wq = f"{BI}:cmd_uncommit.{f.name}"
        meths = {call_attr(c) for c in calls_in(f) if call_recv(c) == "tree"}
        ro = {"lock_write", "lock_read", "unlock", "last_revision", "get_parent_ids", "branch", "has_changes"}
        ctx.check("R1-tree-effects", wq, meths <= ro, f"cmd_uncommit calls only read-only/lock methods on the tree: {sorted(meths)}", construct=str(sorted(meths - ro)))

    # ---- R2 -----------------------------------------------------------------
    sl = need(where, calling(g, attr="set_last_revision_info"), "set_last_revision_info")
    sp = need(where, calling(g, attr="set_parent_ids", recv="tree"), "tree.set_parent_ids")
    rt = need(where, calling(g, attr="remove_tags") + calling(g, name="remove_tags"), "remove_tags(...)")
    k2_unreachable(ctx, "R2-dry-run", where, g, {"dry_run": True, "not dry_run": False}, sl + sp + rt, "a dry run changes nothing")
    m = [i for i in sl if any(call_recv(c) == "master" for c in g.nodes[i].calls())]
    l = [i for i in sl if any(call_recv(c) == "branch" for c in g.nodes[i].calls())]
    ctx.require(m and l, f"{where}: master/branch tip writes not found")
    ok, w = g.assume({"master is not None": True}).always_before(m, l)
    ctx.check("R2-master-first", where, ok, "the master tip moves before the local tip", witness=g.show_path(w) if w else None)
    k1_before(ctx, "R2-tip-before-tree", where, g, l, sp, "the tree's parents are rewritten only after the branch tip moved")
    raises = [n.id for n in g.nodes if n.kind == "stmt" and isinstance(n.ast, ast.Raise) and "BoundBranchOutOfDate" in norm(n.ast)]
    tests = [n.id for n in g.nodes if n.kind == "test" and "master.last_revision()" in norm(n.ast) and "old_tip" in norm(n.ast)]
    ok = bool(raises) and len(tests) == 1
    if ok:
        cut = {(tests[0], b, l_) for (b, l_) in g.succ[tests[0]] if l_ == "F"}
        ok = not (set(sl + sp) & g.copy_without(cut).reachable_from_entry())
    ctx.check("R2-master-in-step", where, ok, "a bound branch whose master tip differs is refused before any change")
    args = {tuple(norm(a) for a in c.args) for i in sl for c in g.nodes[i].calls() if call_attr(c) == "set_last_revision_info"}
    ctx.check("R2-same-target", where, args == {("new_revno", "new_revision_id")}, "master and local tips are set to the same (new_revno, new_revision_id)", construct=str(args))

    # ---- R3 -----------------------------------------------------------------
    stmts = {norm(s) for s in walk_own(fn) if isinstance(s, (ast.Assign, ast.Expr))}
    pm = [m_.group(1) for s in stmts for m_ in [re.fullmatch(r"(\w+) = tree\.get_parent_ids\(\)\[1:\]", s)] if m_]
    ctx.check("R3-pending-merges", where, len(pm) == 1, "pending merges start from the tree's current pending merges")
    pmn = pm[0] if pm else "pending_merges"
    ctx.check("R3-pending-merges", where, any(re.fullmatch(re.escape(pmn) + r"\.extend\(reversed\(\w+\[1:\]\)\)", s) for s in stmts), "each removed mainline revision contributes reversed(parents[1:])")
    ctx.check("R3-pending-merges", where, any(re.fullmatch(r"\w+\.extend\(reversed\(" + re.escape(pmn) + r"\)\)", s) for s in stmts), "the parent list is completed with reversed(pending_merges) (the reversals cancel)")
    ctx.check("R3-new-tip-first-parent", where, "parents = [new_revision_id]" in stmts and all(norm(c.args[0]) == "parents" for i in sp for c in g.nodes[i].calls() if call_attr(c) == "set_parent_ids"), "the new tip is the first parent handed to set_parent_ids")
    loops = [n for n in walk_own(fn) if isinstance(n, ast.For) and "iter_lefthand_ancestry(old_tip)" in norm(n.iter)]
    ctx.check("R3-lefthand-walk", where, len(loops) == 1, "the new tip is found by walking the left-hand ancestry of the old tip")

    # ---- R4 -----------------------------------------------------------------
    k2_unreachable(ctx, "R4-keep-tags", where, g, {"keep_tags": True, "not keep_tags": False}, rt, "keep_tags: no tag is removed")
    k2_unreachable(ctx, "R4-keep-tags", where, g, {"branch.supports_tags()": False}, rt, "branches without tag support are left alone")
    # the revisions counted as "still referenced" by remove_tags include the pending merges only when a tree re-records them
    ext = calling(g, attr="extend", recv="parents")
    if ext:
        k2_unreachable(ctx, "R4-kept-set-needs-tree", where, g, {"tree is not None": False, "tree is None": True}, ext, "without a tree the removed merge parents are not counted as still referenced (their tags are dropped)")
    rargs = {tuple(norm(a) for a in c.args) for i in rt for c in g.nodes[i].calls() if (call_attr(c) or "") == "remove_tags"}
    ctx.check("R4-remove-tags-args", where, rargs == {("branch", "graph", "old_tip", "parents")}, "remove_tags(branch, graph, old_tip, parents)", construct=str(rargs))
    rf = RustFile(repo, RS)
    body = rf.fn_body("remove_tags")
    wr = f"{RS}:remove_tags"
    m_anc = re.search(r"let\s+ancestors\s*=\s*graph\s*\.\s*find_unique_ancestors\(\s*old_tip\s*,\s*parents\s*\)", body)
    ctx.check("R4-rust-ancestors", wr, bool(m_anc), "ancestors = graph.find_unique_ancestors(old_tip, parents)", message="the set of removed revisions is no longer find_unique_ancestors(old_tip, parents)")
    k = body.find("for ")
    ctx.require(k >= 0, f"{wr}: no loop over the reverse tag dict")
    o = body.find("{", k)
    c = match_brace(body, o)
    loop_body = body[o + 1 : c]
    st = top_level_statements(loop_body)
    guard_idx = [i for i, s in enumerate(st) if early_return_guard(s) and early_return_guard(s)[1] == "continue" and re.sub(r"\s+", "", early_return_guard(s)[0]) == "!ancestors.contains(&revid)"]
    del_idx = [i for i, s in enumerate(st) if "delete_tag" in s]
    ok = bool(guard_idx) and bool(del_idx) and min(del_idx) > min(guard_idx) and "delete_tag" not in body[:k] and "delete_tag" not in body[c:]
    ctx.check("R4-rust-guard", wr, ok, "delete_tag is reached only after the `!ancestors.contains(&revid) -> continue` guard", construct="; ".join(s[:50] for s in st), message="a tag can be deleted although its revision is not among the removed revisions")

    # ---- R5: the master's write lock is not held while tags are removed ------------------------------------------
    # remove_tags (src/uncommit.rs) calls tags.delete_tag; a delete_tag implementation that propagates to the master
    # opens a *fresh* master branch object (get_master_branch) and write-locks it — a second physical lock on the lock
    # directory uncommit() already holds through its own `master` object, i.e. LockContention after the tip has moved.
    reaches_master = []
    if "delete_tag" in body:
        for rel_ in repo.python_files():
            if not rel_.startswith("breezy/") or "/tests/" in rel_ or "def delete_tag" not in repo.text(rel_):
                continue
            for q_, f_ in repo.module(rel_).functions().items():
                if q_.endswith(".delete_tag") and any(call_attr(c) == "get_master_branch" for c in calls_in(f_)):
                    reaches_master.append(f"{rel_}:{q_}")
    if reaches_master:
        g5 = g.assume({"master is not None": True, "master is None": False}).without_exc_edges()
        lk = need(where, calling(g5, attr="lock_write", recv="master"), "master.lock_write()")
        ul = calling(g5, attr="unlock", recv="master")
        rt5 = [i for i in rt if i in {n.id for n in g5.nodes}]
        hit = sorted(set(rt5) & g5.reach(lk, avoid=set(ul)))
        w5 = g5.path(lk, hit, avoid=set(ul)) if hit else None
        ctx.check("R5-master-unlocked-for-tags", where, not hit, f"master.unlock() lies on every path from master.lock_write() to remove_tags ({reaches_master[0]} locks the master itself)", construct="remove_tags(...) with the master still write-locked", message=f"uncommit() still holds its write lock on the master when it calls remove_tags; {reaches_master[0]} opens the master again and takes its own write lock, which contends with ours: uncommitting a tagged revision in a bound branch dies with LockContention after the tip was moved and the tags stay", witness=g5.show_path(w5) if w5 else None)
    else:
        ctx.info("R5-master-unlocked-for-tags", where, "no delete_tag implementation reaches the master branch; rule vacuous on this tree")

    # ---- R7: a local-only uncommit does not write the master's tags --------------------------------------------------
    if reaches_master:
        params = [a.arg for a in fn.args.args + fn.args.kwonlyargs]
        ctx.require("local" in params, f"{where}: parameter `local` not found")
        g7 = g.assume({"local": True, "not local": False})
        hit7 = sorted(set(rt) & g7.reachable_from_entry())
        ctx.check("R7-local-leaves-master-tags", where, not hit7, f"with local=True (only the local branch loses the revisions) remove_tags is not reached, or no delete_tag writes the master ({reaches_master[0]} does)", construct="remove_tags(branch, ...) reachable with local=True", message=f"uncommit(local=True) removes the revisions from the bound branch only, but still calls remove_tags, and {reaches_master[0]} deletes each tag in the master as well: the master keeps the revision and loses its tag — a tag that does not point at a removed revision is dropped")
    # ---- R6: a tag the master does not have does not stop the local deletion ----------------------------------------
    for site in reaches_master:
        rel_, q_ = site.split(":", 1)
        f_ = repo.func(rel_, q_)
        parents = {}
        for n in ast.walk(f_):
            for ch in ast.iter_child_nodes(n):
                parents[id(ch)] = n
        nested = [c for c in calls_in(f_) if call_attr(c) == "delete_tag" and (call_recv(c) or "").endswith(".tags")]
        ctx.require(bool(nested), f"{site}: propagation of the deletion to the master not found")
        for c in nested:
            tolerant = False
            cur = c
            while id(cur) in parents:
                par = parents[id(cur)]
                if isinstance(par, ast.With) and any(isinstance(it.context_expr, ast.Call) and norm(it.context_expr.func).split(".")[-1] == "suppress" and any("NoSuchTag" in norm(a) or norm(a).split(".")[-1] in ("Exception", "BzrError") for a in it.context_expr.args) for it in par.items):
                    tolerant = True
                if isinstance(par, ast.Try) and any(cur is x for x in par.body) and any((h.type is None or "NoSuchTag" in norm(h.type) or norm(h.type).split(".")[-1] in ("Exception", "BzrError")) and not any(isinstance(r_, ast.Raise) for b in h.body for r_ in ast.walk(b)) for h in par.handlers):
                    tolerant = True
                cur = par
            ctx.check("R6-master-missing-tag-tolerated", site, tolerant, "the deletion on the master tolerates NoSuchTag (the master may never have had the tag, or lost it: deletions on the master do not reach checkouts)", construct=f"L{c.lineno}:{norm(c)[:60]}", message=f"{q_} lets NoSuchTag from the master's delete_tag escape: in a bound branch whose master lacks one of the tags, uncommit raises after tip, revno and parents were rewound and the tags on the removed revisions stay")

MUTANTS = [
    Mutant("master's missing tag aborts the local deletion", "breezy/bzr/tag.py", "                with contextlib.suppress(errors.NoSuchTag):\n                    master.tags.delete_tag(tag_name)\n", "                master.tags.delete_tag(tag_name)\n", expect="R6-master-missing-tag-tolerated"),
    Mutant("master stays locked while tags are removed", UC, "                    unlockable.remove(master)\n                    master.unlock()\n", "                    pass\n", expect="R5-master-unlocked-for-tags"),
    Mutant("uncommit reverts the tree", UC, "            if tree is not None:\n                parents.extend(reversed(pending_merges))\n                tree.set_parent_ids(parents)\n", "            if tree is not None:\n                parents.extend(reversed(pending_merges))\n                tree.set_parent_ids(parents)\n                tree.revert()\n", expect="R1-tree-effects"),
    Mutant("master/local order swapped", UC, "            if master is not None:\n                master.set_last_revision_info(new_revno, new_revision_id)\n            branch.set_last_revision_info(new_revno, new_revision_id)\n", "            branch.set_last_revision_info(new_revno, new_revision_id)\n            if master is not None:\n                master.set_last_revision_info(new_revno, new_revision_id)\n", expect="R2-master-first"),
    Mutant("tags removed during a dry run", UC, "                    master.unlock()\n                remove_tags(branch, graph, old_tip, parents)\n    finally:", "                    master.unlock()\n        if branch.supports_tags() and not keep_tags:\n            remove_tags(branch, graph, old_tip, parents)\n    finally:", expect="ANALYSIS-ERROR", note="parents undefined on dry-run path: still parses; rule fires as violation"),
    Mutant("keep_tags ignored", UC, "            if branch.supports_tags() and not keep_tags:", "            if branch.supports_tags():", expect="R4-keep-tags"),
    Mutant("pending merges order broken", UC, "            pending_merges.extend(reversed(parents[1:]))", "            pending_merges.extend(parents[1:])", expect="R3-pending-merges"),
    Mutant("rust: delete before the guard", RS, "        if !ancestors.contains(&revid) {\n            continue;\n        }\n        for tag in revid_tags {", "        for tag in revid_tags {", expect="R4-rust-guard"),
    Mutant("rust: ancestors of the new tip", RS, "graph.find_unique_ancestors(old_tip, parents)", "graph.find_unique_ancestors(parents[0].clone(), &[old_tip])", expect="R4-rust-ancestors"),
    Mutant("neutral: read-only query added", UC, "        old_revno, old_tip = branch.last_revision_info()\n", "        old_revno, old_tip = branch.last_revision_info()\n        branch.get_parent()\n", neutral=True),
]
next(m for m in MUTANTS if m.name == "tags removed during a dry run").expect = ["R2-dry-run"]
