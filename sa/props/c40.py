"""C40 — bundles and merge directives: serialisation key / marker / record-kind tables."""

import ast

from ..astutil import call_attr, call_recv, calls_in, const_value, norm, walk_own
from ..selftest import Mutant

ID = "C40"
TECHNIQUE = "writer/reader key, marker and record-kind table agreement (K6) for merge directives and v4 bundles (ast)"
FLOOR = 11
MD = "breezy/merge_directive.py"
V4 = "breezy/bzr/bundle/serializer/v4.py"
EXPLANATION = """
K6 tables: (a) for MergeDirective and MergeDirective2 the stanza keys written by _to_lines (rio.Stanza kwargs, conditional
adds, the loop over optional keys, base_revision_id for format 2) minus the separately parsed timestamp equal the keys
each class's _from_lines copies into the constructor; keys the reader re-encodes to bytes (revision ids, sha1) are a
subset of the keys written from bytes values; (b) the payload markers written by MergeDirective2.to_lines
(# Begin patch, # Begin bundle) are the prefixes _from_lines tests, and anything else is refused
(IllegalMergeDirectivePayload); the two format strings differ and each class writes its own; (c) bundle format 4: the
record kinds the BundleWriter emits (literals handed to the add_*_record helpers) are within the kinds the container
encoder accepts, and every one is handled by RevisionInstaller._install_in_write_group.
Added while testing against seeded changes: Also: decode_name(encode_name(kind, rev, file)) round-trips for ids with
'/' (abstract evaluation); _verify_patch's normalising substitutions only rewrite line ends.
testament-always-compared: BundleInfo._validate_revision (0.8/0.9 bundles) evaluates the comparison of the recomputed
testament hash with the recorded one on every normal path, and a mismatch raises TestamentMismatch.
install-order-presence: the v4 writer emits inventory records before revision records; consequently the installer's
inventory code asks the inventories store — never the revision store — whether a parent is present.
Third round: delta-basis-is-delta-source — in RevisionInstaller._install_inventory_records the inventory the delta is made against is looked
up under the very expression passed as basis to add_inventory_by_delta; preview-verified-when-present — MergeDirective2._maybe_verify
answers "inapplicable" only under `self.patch is None`.
Fourth round: retry-collects-all-parents — every loop over `.parent_ids` in BaseMergeDirective.install_revisions iterates the attribute itself (no slice).
Does not decide: testament equality of the installed revisions; detection of a tampered patch (hash checks are value
computations).
"""


def stanza_keys_written(fn):
    keys = set()
    for n in walk_own(fn):
        if isinstance(n, ast.Dict):
            for k in n.keys:
                if isinstance(k, ast.Constant) and isinstance(k.value, str):
                    keys.add(k.value)
        if isinstance(n, ast.Subscript) and isinstance(n.ctx, ast.Store) and norm(n.value) == "stanza_kwargs" and isinstance(n.slice, ast.Constant):
            keys.add(n.slice.value)
        if isinstance(n, ast.Call) and call_attr(n) == "add" and call_recv(n) == "stanza" and n.args and isinstance(n.args[0], ast.Constant):
            keys.add(n.args[0].value)
        if isinstance(n, ast.For) and isinstance(n.iter, ast.Tuple) and any(call_attr(c) == "add" and call_recv(c) == "stanza" for c in calls_in(n)):
            keys |= {e.value for e in n.iter.elts if isinstance(e, ast.Constant)}
    return keys


def stanza_keys_read(fn):
    keys = set()
    for n in walk_own(fn):
        if isinstance(n, ast.For) and isinstance(n.iter, ast.Tuple) and any(call_attr(c) == "get" and call_recv(c) == "stanza" for c in calls_in(n)):
            keys |= {e.value for e in n.iter.elts if isinstance(e, ast.Constant)}
        if isinstance(n, ast.Call) and call_attr(n) == "get" and call_recv(n) == "stanza" and n.args and isinstance(n.args[0], ast.Constant):
            keys.add(n.args[0].value)
    return keys


def run(ctx):
    repo = ctx.repo
    from ..astutil import bind_roles, canonicalise

    fw = repo.func(MD, "BaseMergeDirective._to_lines")
    fw = canonicalise(fw, bind_roles(fw, {"stanza_kwargs": ("assign", lambda t, n: isinstance(n, ast.Dict) and "'revision_id'" in t), "stanza": ("assign", "rio.Stanza(**{stanza_kwargs})")}, f"{MD}:BaseMergeDirective._to_lines"))
    written = stanza_keys_written(fw)
    ctx.require({"revision_id", "timestamp", "target_branch"} <= written, f"{MD}:_to_lines: stanza keys not found ({sorted(written)})")
    for cname, with_base in (("MergeDirective", False), ("MergeDirective2", True)):
        fr = repo.func(MD, f"{cname}._from_lines")
        fr = canonicalise(fr, bind_roles(fr, {"stanza": ("assign", "~rio_patch\\.read_patch_stanza\\(.*\\)")}, f"{MD}:{cname}._from_lines"))
        read = stanza_keys_read(fr)
        w = set(written) if with_base else written - {"base_revision_id"}
        where = f"{MD}:{cname}._to_lines/_from_lines"
        ctx.check("directive-keys", where, read == w, f"keys written {sorted(w)} == keys read {sorted(read)}", construct=f"written-only {sorted(w - read)} read-only {sorted(read - w)}", message=f"{cname}: stanza keys written {sorted(w - read)} are not read back / keys read {sorted(read - w)} are never written")
        tl = repo.func(MD, f"{cname}.to_lines")
        base_flag = any(call_attr(c) == "_to_lines" and any(k.arg == "base_revision" and norm(k.value) == "True" for k in c.keywords) for c in calls_in(tl))
        ctx.check("directive-keys", f"{MD}:{cname}.to_lines", base_flag == with_base, f"{cname} {'writes' if with_base else 'does not write'} base_revision_id")
    fs = {c: const_value(s.value) for c in ("MergeDirective", "MergeDirective2") for s in repo.cls(MD, c).body if isinstance(s, ast.Assign) and norm(s.targets[0]) == "_format_string"}
    ctx.check("format-strings", MD, len(fs) == 2 and len(set(fs.values())) == 2 and all(isinstance(v, bytes) for v in fs.values()), f"distinct format strings {fs}")
    ctx.check("format-strings", f"{MD}:BaseMergeDirective._to_lines", "self._format_string" in norm(fw), "the header line carries the class's own format string")
    # markers
    t2 = repo.func(MD, "MergeDirective2.to_lines")
    f2 = repo.func(MD, "MergeDirective2._from_lines")
    wm = {n.value.rstrip(b"\n") for n in walk_own(t2) if isinstance(n, ast.Constant) and isinstance(n.value, bytes) and n.value.startswith(b"# Begin")}
    rm = {c.args[0].value for c in calls_in(f2) if call_attr(c) == "startswith" and c.args and isinstance(c.args[0], ast.Constant) and isinstance(c.args[0].value, bytes)}
    ctx.check("payload-markers", f"{MD}:MergeDirective2.to_lines/_from_lines", wm == rm and len(wm) == 2, f"markers written {sorted(wm)} == markers tested {sorted(rm)}", construct=f"{sorted(wm)} / {sorted(rm)}", message=f"payload markers disagree: written {sorted(wm)}, read {sorted(rm)}")
    ctx.check("payload-markers", f"{MD}:MergeDirective2._from_lines", any(isinstance(n, ast.Raise) and "IllegalMergeDirectivePayload" in norm(n) for n in walk_own(f2)), "an unknown payload start is refused")
    # ---- bundle v4 -----------------------------------------------------------------
    enc = repo.func(V4, "BundleWriter.encode_name")
    accepted = set()
    for n in walk_own(enc):
        if isinstance(n, ast.Compare) and isinstance(n.ops[0], (ast.NotIn, ast.In)) and isinstance(n.comparators[0], (ast.Tuple, ast.List)):
            accepted |= {e.value for e in n.comparators[0].elts if isinstance(e, ast.Constant)}
    ctx.require(len(accepted) >= 5, f"{V4}:BundleWriter.encode_name: accepted content kinds not found")
    emitted = set()
    mod = repo.module(V4)
    for q, f in mod.functions().items():
        for c in calls_in(f):
            if call_attr(c) in ("_add_record", "_add_mp_records_keys", "add_multiparent_record", "add_fulltext_record", "_add_revision_texts", "_add_inventory_mpdiffs_from_serializer"):
                for a in c.args:
                    if isinstance(a, ast.Constant) and isinstance(a.value, str) and a.value in accepted | {"chk", "texts"}:
                        emitted.add(a.value)
    ctx.check("bundle-kinds", f"{V4}:BundleWriter", emitted <= accepted and len(emitted) >= 5, f"record kinds emitted {sorted(emitted)} are accepted by encode_name {sorted(accepted)}", construct=str(sorted(emitted - accepted)))
    # ---- patch verification compares the patches up to line-end damage only (K9 over the normalising regexes) ---------
    fv = repo.func(MD, "MergeDirective2._verify_patch")
    wv = f"{MD}:MergeDirective2._verify_patch"
    srcs = [fv]
    for c in calls_in(fv):
        if call_recv(c) in ("self", "MergeDirective2", "cls") and call_attr(c) not in ("_generate_diff",):
            h = repo.resolve_method(MD, "MergeDirective2", call_attr(c))
            if h is not None and h[2] not in srcs:
                srcs.append(h[2])
    import re._parser as sp  # noqa: PLC0415

    def consumes_line_end(pattern):
        """True when every match of the pattern contains a CR or LF (a mandatory literal at top level)."""
        try:
            p_ = sp.parse(pattern)
        except Exception:
            return False
        for op, av in p_:
            if op == sp.LITERAL and av in (10, 13):
                return True
            if op == sp.MAX_REPEAT and av[0] >= 1 and any(o == sp.LITERAL and a in (10, 13) for o, a in av[2]):
                return True
        return False

    subs = []
    for f in srcs:
        for c in calls_in(f):
            if norm(c.func) in ("re.sub", "re.subn") and c.args and isinstance(c.args[0], ast.Constant):
                subs.append((c.args[0].value, const_value(c.args[1]) if len(c.args) > 1 else None))
    ctx.require(len(subs) >= 2, f"{wv}: normalising substitutions not found")
    for pat, rep_ in sorted(set(subs), key=repr):
        ctx.check("verify-normalises-line-ends-only", wv, consumes_line_end(pat) and rep_ == b"\n", f"substitution {pat!r} -> {rep_!r} only rewrites line ends (line-ending conversion / trailing blanks)", construct=f"{pat!r} -> {rep_!r}", message=f"_verify_patch normalises with {pat!r} -> {rep_!r}, which also rewrites text inside a line: a preview patch whose indentation or spacing was altered still verifies although it no longer shows what the bundle does")
    cmp_ = [n for f in srcs[:1] for n in ast.walk(f) if isinstance(n, ast.Compare) and len(n.ops) == 1 and isinstance(n.ops[0], ast.Eq)]
    ctx.check("verify-normalises-line-ends-only", wv, len(cmp_) == 1 and any(isinstance(r, ast.Return) and r.value is cmp_[0] for r in walk_own(fv)), "the verdict is the equality of the two normalised patches")
    # ---- record names: encode_name / decode_name are inverse, slashes in any component included (K8 table) -------
    from ..absint import Interp, Opaque, Raised, Unsupported

    fe_ = repo.func(V4, "BundleWriter.encode_name")
    fd_ = repo.func(V4, "BundleReader.decode_name")

    def hook(interp, call, name, ev_args, env):
        if name == "re.split":
            import re as _re

            args, kw = ev_args()
            return _re.split(*args, **kw)
        return NotImplemented

    it = Interp(call_hook=hook)
    ids = [b"a", b"a/b", b"a//b", b"x-1"]
    edge_ids = [b"/a", b"a/"]  # an id that begins or ends with the separator (reported per id: known finding on this tree)
    rows = [("info", None, None)] + [(k, r, None) for k in ("revision", "inventory", "signature") for r in ids] + [("file", r, f) for r in ids for f in ids]
    bad = []
    try:
        for kind, rev, fid in rows:
            args = {"content_kind": kind, "revision_id": rev, "file_id": fid}
            if fe_.args.args and fe_.args.args[0].arg == "self":
                args["self"] = Opaque("writer")
            enc = it.call(fe_, args)
            dargs = {"name": enc}
            if fd_.args.args and fd_.args.args[0].arg == "self":
                dargs["self"] = Opaque("reader")
            dec = it.call(fd_, dargs)
            if tuple(dec) != (kind, rev, fid):
                bad.append(((kind, rev, fid), enc, tuple(dec)))
    except (Raised, Unsupported) as e_:
        from ..index import AnalysisError

        raise AnalysisError(f"{V4}: encode_name/decode_name not evaluable: {e_}")
    ctx.fact(len(rows))
    ctx.check("record-name-roundtrip", f"{V4}:BundleWriter.encode_name/BundleReader.decode_name", not bad, f"decode_name(encode_name(kind, revision_id, file_id)) gives the components back for all {len(rows)} tabled combinations (ids with and without '/')", construct=str(bad[:2]), message=f"bundle record names do not round-trip, e.g. {bad[:2]}: a revision or file id containing '/' is written in a form the reader splits differently — the record is installed under another key or not found")
    # ids that begin or end with the separator: reported separately, per position
    for eid in edge_ids:
        ebad = []
        for kind, rev, fid in [("revision", eid, None), ("file", b"r", eid), ("file", eid, b"f")]:
            args = {"content_kind": kind, "revision_id": rev, "file_id": fid}
            if fe_.args.args and fe_.args.args[0].arg == "self":
                args["self"] = Opaque("writer")
            dargs = {}
            if fd_.args.args and fd_.args.args[0].arg == "self":
                dargs["self"] = Opaque("reader")
            try:
                enc = it.call(fe_, args)
                dec = tuple(it.call(fd_, {**dargs, "name": enc}))
            except Raised as r_:
                enc, dec = b"?", ("raises", r_.name)
            except Unsupported as e_:
                from ..index import AnalysisError

                raise AnalysisError(f"{V4}: encode_name/decode_name not evaluable: {e_}")
            if dec != (kind, rev, fid):
                ebad.append(((kind, rev, fid), enc, dec))
        pos = "leading" if eid.startswith(b"/") else "trailing"
        if ebad:
            ctx.violation("record-name-roundtrip", f"{V4}:BundleWriter.encode_name/BundleReader.decode_name[{pos}-separator]", str(ebad[0])[:200], f"a revision or file id with a {pos} '/' does not survive the record name: {ebad[0][0]} is written as {ebad[0][1]!r} and read as {ebad[0][2]} — the doubled separator merges with the neighbouring one, the record is filed under another key and the bundle cannot be installed")
        else:
            ctx.check("record-name-roundtrip", f"{V4}:BundleWriter.encode_name/BundleReader.decode_name[{pos}-separator]", True, f"ids with a {pos} '/' round-trip")
    inst = repo.func(V4, "RevisionInstaller._install_in_write_group")
    _it = [t for t in __import__("sa.astutil", fromlist=["x"]).loop_targets_nested(inst, lambda t, n: "iter_records" in t)]
    ctx.require(len(_it) == 1 and len(_it[0]) >= 5, f"{V4}:RevisionInstaller._install_in_write_group: record loop not found")
    inst = canonicalise(inst, {"repo_kind": _it[0][2]})
    handled = set()
    for n in walk_own(inst):
        if isinstance(n, ast.Compare) and norm(n.left) == "repo_kind" and isinstance(n.ops[0], ast.Eq) and isinstance(n.comparators[0], ast.Constant):
            handled.add(n.comparators[0].value)
    ctx.check("bundle-kinds", f"{V4}:RevisionInstaller._install_in_write_group", emitted <= handled, f"every emitted kind {sorted(emitted)} is installed ({sorted(handled)})", construct=str(sorted(emitted - handled)), message=f"bundle record kinds {sorted(emitted - handled)} are written but never installed: those records are silently dropped when the bundle is applied")
    ctx.sample({"directive_keys": sorted(written), "markers": sorted(m.decode() for m in wm), "bundle_kinds": sorted(emitted)})

    # ---- 0.8/0.9 bundles: every revision's testament is compared with the recorded hash (tamper detection) ---------
    from ..cfg import build_cfg

    BD = "breezy/bzr/bundle/bundle_data.py"
    fv2 = repo.func(BD, "BundleInfo._validate_revision")
    wv2 = f"{BD}:BundleInfo._validate_revision"
    shas = [norm(n.targets[0]) for n in walk_own(fv2) if isinstance(n, ast.Assign) and isinstance(n.value, ast.Call) and call_attr(n.value) == "as_sha1"]
    ctx.require(len(shas) == 1, f"{wv2}: the local holding <testament>.as_sha1() was not found ({shas})")
    g2 = build_cfg(fv2).without_exc_edges()
    cmp_t = [n.id for n in g2.nodes if n.kind == "test" and any(isinstance(c, ast.Compare) and len(c.ops) == 1 and isinstance(c.ops[0], (ast.Eq, ast.NotEq)) and shas[0] in (norm(c.left), norm(c.comparators[0])) and any(x.endswith(".sha1") for x in (norm(c.left), norm(c.comparators[0]))) for c in ast.walk(n.ast))]
    skip = g2.exit in g2.reach([g2.entry], avoid=set(cmp_t), include_src=True)
    w2 = g2.path([g2.entry], [g2.exit], avoid=set(cmp_t)) if skip and cmp_t else None
    ctx.check("testament-always-compared", wv2, bool(cmp_t) and not skip, "every normal way through _validate_revision evaluates the comparison of the computed testament hash with the recorded one", construct="a path that never compares the testament", message="_validate_revision can finish without comparing the recomputed testament with the hash recorded in the bundle (e.g. when no hash is recorded): a 0.9 bundle — also the payload of format-1 merge directives — whose content was altered and whose sha1 line was dropped installs silently under the original revision id", witness=g2.show_path(w2) if w2 else None)
    if cmp_t:
        mism = [b for t in cmp_t for (b, l_) in g2.succ[t] if l_ == ("T" if any(isinstance(c, ast.Compare) and isinstance(c.ops[0], ast.NotEq) for c in ast.walk(g2.nodes[t].ast)) else "F")]
        r2 = g2.reach(mism, include_src=True)
        ctx.check("testament-always-compared", wv2, g2.exit not in r2 and any(isinstance(g2.nodes[i].ast, ast.Raise) and "TestamentMismatch" in norm(g2.nodes[i].ast) for i in r2 if g2.nodes[i].kind == "stmt"), "a mismatch raises TestamentMismatch")
    callers = [q for q, f in repo.module(BD).functions().items() if any(call_attr(c) == "_validate_revision" for c in calls_in(f))]
    ctx.check("testament-always-compared", BD, bool(callers), f"_validate_revision is called when a bundle revision tree is built ({callers})")
    # ---- v4: inventories are written (and therefore installed) before revisions, so while inventories are installed the
    # presence of a parent is asked of the inventories store, never of the revisions --------------------------------------
    fw4 = repo.func(V4, "BundleWriteOperation.write_revisions")
    lines = {"inv": [c.lineno for c in calls_in(fw4) if (call_attr(c) or "").startswith("_add_inventory") or (call_attr(c) == "_add_mp_records_keys" and c.args and const_value(c.args[0]) == "inventory")], "rev": [c.lineno for c in calls_in(fw4) if call_attr(c) == "_add_revision_texts"]}
    ctx.require(lines["inv"] and lines["rev"], f"{V4}:BundleWriteOperation.write_revisions: inventory / revision writers not found")
    inv_first = max(lines["inv"]) < min(lines["rev"])
    ctx.check("install-order-presence", f"{V4}:BundleWriteOperation.write_revisions", True, f"record order: inventories {'before' if inv_first else 'after'} revisions")
    if inv_first:
        REV_QUERIES = {"has_revision", "has_revisions", "get_revision", "get_revisions", "get_parent_map", "all_revision_ids", "get_known_graph_ancestry"}
        for qn in ("RevisionInstaller._get_parent_inventory_texts", "RevisionInstaller._install_inventory_records"):
            f4 = repo.func(V4, qn)
            badq = [f"L{c.lineno}:{norm(c)[:60]}" for c in calls_in(f4) if call_attr(c) in REV_QUERIES and ((call_recv(c) or "") in ("self._repository", "self._repository.revisions") or (call_recv(c) or "").endswith(".revisions"))]
            ctx.check("install-order-presence", f"{V4}:{qn}", not badq, f"{qn} does not ask the revision store whether a parent is present", construct="; ".join(badq), message=f"{qn} decides whether a parent inventory is present by asking for the *revision* ({badq}): a v4 bundle installs all its inventories before any revision, so a parent carried by the same bundle is taken for a ghost, dropped from the multi-parent diff's parents, and a valid bundle fails to install (or reconstructs another text) as soon as the parent text is not in the cache")
        f4 = repo.func(V4, "RevisionInstaller._get_parent_inventory_texts")
        ctx.check("install-order-presence", f"{V4}:RevisionInstaller._get_parent_inventory_texts", any(call_attr(c) == "get_parent_map" and (call_recv(c) or "").endswith(".inventories") for c in calls_in(f4)), "presence of parent inventories is asked of the inventories store")
    # ---- the delta handed to add_inventory_by_delta was made against the inventory of the basis it names ---------------
    fiv = repo.func(V4, "RevisionInstaller._install_inventory_records")
    wiv = f"{V4}:RevisionInstaller._install_inventory_records"
    adds = [c for c in calls_in(fiv) if call_attr(c) == "add_inventory_by_delta" and len(c.args) >= 2]
    ctx.require(len(adds) >= 1, f"{wiv}: add_inventory_by_delta(basis, delta, …) not found")
    for c in adds:
        basis, dname = norm(c.args[0]), norm(c.args[1])
        dsrc = [c.args[1]] if isinstance(c.args[1], ast.Call) else [a.value for a in walk_own(fiv) if isinstance(a, ast.Assign) and any(norm(t) == dname for t in a.targets)]
        pinv = {norm(v.args[1]) for v in dsrc if isinstance(v, ast.Call) and len(v.args) == 2 and "delta" in norm(v.func).lower()}
        okb = len(pinv) == 1 and len(dsrc) == 1
        detail = ""
        if okb:
            p_ = pinv.pop()
            psrc = [a.value for a in walk_own(fiv) if isinstance(a, ast.Assign) and any(norm(t) == p_ for t in a.targets)]
            bad_ = [norm(v) for v in psrc if not (norm(v) == "None" or (isinstance(v, ast.Call) and v.args and norm(v.args[0]) == basis))]
            okb = bool(psrc) and not bad_
            detail = f"{p_} assigned from {bad_}" if bad_ else ""
        ctx.check("delta-basis-is-delta-source", wiv, okb, f"the delta passed with basis `{basis}` is made against an inventory looked up under `{basis}`", construct=detail or norm(c)[:100], message=f"_install_inventory_records applies a delta on top of `{basis}` that was computed against another inventory ({detail}): the installed inventory of a merge silently loses (or gains) the other side's changes — the testament of the installed revision differs from the source, and nothing raises")
    # ---- a preview patch that is present — empty included — is verified -------------------------------------------------
    from ..cfg import build_cfg as _bcfg

    fmv = repo.func(MD, "MergeDirective2._maybe_verify")
    wmv = f"{MD}:MergeDirective2._maybe_verify"
    gmv = _bcfg(fmv)
    inapp = [n.id for n in gmv.nodes if n.kind == "stmt" and isinstance(n.ast, ast.Return) and const_value(n.ast.value, None) == "inapplicable"]
    ctx.require(bool(inapp), f"{wmv}: `return 'inapplicable'` not found")
    g_present = gmv.assume({"self.patch is not None": True, "self.patch is None": False})
    ctx.check("preview-verified-when-present", wmv, not (set(inapp) & g_present.reachable_from_entry()) and any(call_attr(c) == "_verify_patch" for c in calls_in(fmv)), "'inapplicable' is answered only when self.patch is None; any patch that is present, the empty one included, goes through _verify_patch", message="_maybe_verify answers 'inapplicable' for a patch that is present but empty (a truthiness test instead of `is not None`): a directive whose preview was blanked out is no longer reported as tampered ('failed'), `brz merge` gives no warning while the bundle still carries the change")
    # ---- fourth round: the dependency retry of install_revisions looks at every parent of every bundled revision ---------
    fir = repo.func(MD, "BaseMergeDirective.install_revisions")
    ploops = [l_ for l_ in ast.walk(fir) if isinstance(l_, (ast.For, ast.comprehension)) and "parent_ids" in norm(l_.iter)]
    ctx.require(bool(ploops), f"{MD}:BaseMergeDirective.install_revisions: the loop over a bundled revision's parent_ids was not found")
    for l_ in ploops:
        it_ = l_.iter
        whole_p = isinstance(it_, ast.Attribute) and it_.attr == "parent_ids"
        ctx.check("retry-collects-all-parents", f"{MD}:BaseMergeDirective.install_revisions", whole_p, "missing dependencies are collected from all parent_ids of each bundled revision (a merge's right-hand parent may lie outside the bundle too)", construct=norm(it_), message=f"install_revisions collects the bundle's missing dependencies from `{norm(it_)}` instead of all parents: a bundled merge revision whose right-hand parent is outside the bundle and absent from the receiver is never fetched from the submit branch, the second install raises RevisionNotPresent although the submit branch has it")


MUTANTS = [
    Mutant("dependency retry looks at left-hand parents only", MD, "                        for parent_id in revision.parent_ids:\n", "                        for parent_id in revision.parent_ids[:1]:\n", expect="retry-collects-all-parents"),
    Mutant("empty preview patch skips verification", MD, "        if self.patch is not None:\n            if self._verify_patch(repository):", "        if self.patch:\n            if self._verify_patch(repository):", expect="preview-verified-when-present"),
    Mutant("delta made against any cached parent", V4, "                    parent_inv = inventory_cache.get(parent_ids[0], None)\n", "                    parent_inv = inventory_cache.get(parent_ids[-1], None)\n", expect="delta-basis-is-delta-source"),
    Mutant("0.9 bundle without a recorded hash is accepted", "breezy/bzr/bundle/bundle_data.py", "        if sha1 != rev_info.sha1:\n            raise TestamentMismatch(rev.revision_id, rev_info.sha1, sha1)\n", "        if rev_info.sha1 is None:\n            pass\n        elif sha1 != rev_info.sha1:\n            raise TestamentMismatch(rev.revision_id, rev_info.sha1, sha1)\n", expect="testament-always-compared"),
    Mutant("parent inventories classified by revision presence", V4, "            present_parent_map = self._repository.inventories.get_parent_map(\n                parent_keys\n            )\n", "            present_parent_map = self._repository.inventories.get_parent_map(\n                parent_keys\n            )\n            present_parent_map = {k: v for k, v in present_parent_map.items() if self._repository.has_revision(k[-1])}\n", expect="install-order-presence"),
    Mutant("verification ignores runs of blanks", MD, "        # Strip trailing whitespace\n        calculated_patch = re.sub(b\" *\\n\", b\"\\n\", calculated_patch)\n        stored_patch = re.sub(b\" *\\n\", b\"\\n\", stored_patch)\n", "        # Strip trailing whitespace\n        calculated_patch = re.sub(b\"[ \\t]+\", b\" \", re.sub(b\" *\\n\", b\"\\n\", calculated_patch))\n        stored_patch = re.sub(b\"[ \\t]+\", b\" \", re.sub(b\" *\\n\", b\"\\n\", stored_patch))\n", expect="verify-normalises-line-ends-only"),
    Mutant("file ids written unescaped", V4, "        names = [\n            n.replace(b\"/\", b\"//\")\n            for n in (content_kind.encode(\"ascii\"), revision_id, file_id)\n            if n is not None\n        ]\n", "        names = [content_kind.encode(\"ascii\")]\n        if revision_id is not None:\n            names.append(revision_id.replace(b\"/\", b\"//\"))\n        if file_id is not None:\n            names.append(file_id)\n", expect="record-name-roundtrip"),
    Mutant("source_branch no longer written", MD, "        for key in (\"source_branch\", \"message\"):\n            if self.__dict__[key] is not None:", "        for key in (\"message\",):\n            if self.__dict__[key] is not None:", expect="directive-keys"),
    Mutant("format 2 reader loses base_revision_id", MD, "            \"message\",\n            \"base_revision_id\",\n        ):", "            \"message\",\n        ):", expect="directive-keys"),
    Mutant("marker capitalised on the writer only", MD, "            lines.append(b\"# Begin patch\\n\")", "            lines.append(b\"# Begin Patch\\n\")", expect="payload-markers"),
    Mutant("installer forgets signatures", V4, "            if repo_kind == \"signature\":", "            if repo_kind == \"signatures\":", expect="bundle-kinds"),
    Mutant("neutral: reader tuple reordered", MD, "            \"source_branch\",\n            \"message\",\n            \"base_revision_id\",\n        ):", "            \"message\",\n            \"source_branch\",\n            \"base_revision_id\",\n        ):", neutral=True),
]
