"""C48 — ignore patterns: no capturing groups in translations, batch constants, exception precedence table."""

import ast
import re

from ..absint import Interp, Obj, Opaque, Raised
from ..astutil import call_attr, call_recv, calls_in, const_value, norm, walk_own
from ..selftest import Mutant

ID = "C48"
TECHNIQUE = "regex-AST / escape-aware scan of every translation template for capturing groups (K9), batch-constant agreement (K6), 8-row precedence table of ExceptionGlobster.match by abstract interpretation (K8) (ast + re._parser)"
FLOOR = 40
GF = "breezy/globbing.py"
EXPLANATION = """
Globster finds the matching pattern as patterns[match.lastindex - 1]; that indexing is right only if the combined regex
has exactly one capturing group per pattern. K9: every replacement template registered on _sub_named, _sub_re,
_sub_fullpath and _sub_basename, every literal returned by the replacement helper functions, and every `prefix` in
Globster.pattern_info is free of capturing groups (complete regexes are parsed with re._parser and must have 0 groups;
fragments are scanned escape-aware for an unescaped "(" not followed by "?"); the rule that rewrites user RE: patterns
turns "(" into "(?:"; _add_patterns wraps each translated pattern in exactly one "( … )" and joins them inside a
non-capturing group after the prefix. K6: the two slice bounds that build a batch and the bound that drops it are the same
constant, at most 99 (the re module's group limit at the time), and the regex is stored with exactly the slice it was built
from; match() returns patterns[match.lastindex - 1] of that stored slice. K8: ExceptionGlobster.__init__ tests the "!!"
prefix before "!" and strips exactly the prefix length into lists 2 / 1 / 0, and match() is evaluated abstractly over the
8 truth combinations of (double-exception, exception, plain) matches: "!!" wins, else an exception hides the file, else
the plain match decides. Globster.identify classifies RE:/slash patterns as fullpath, "*." patterns as extension, the rest
as basename, in that order.
last-component-only: the extension and basename prefixes contain the negative lookahead (?!.*/) (parsed with re._parser)
that confines those patterns to the last path component.
Third round: user-regex-decapture is now a table (the _sub_re rules are read from the source and applied, with a small model of
Replacer, to ten RE: patterns; the result must compile with no capturing group) instead of a comparison of the rule's text;
user-regex-language-preserved — differential table: the user's regex and its translation fully match the same strings of
length <= 4 over the pattern's characters plus ':' and '?', per class (plain groups, escaped paren, paren in a char group,
named groups).
Fourth round: tree-matcher-knows-exceptions — every `self._*ignoreglobster = <Class>(..)` in the working-tree modules constructs an
ExceptionGlobster (sibling agreement of the bzr and git trees).
Does not decide: glob -> regex translation semantics for arbitrary patterns.
"""
REPLACERS = ["_sub_named", "_sub_re", "_sub_fullpath", "_sub_basename"]


def capturing_groups_in_fragment(s):
    """Unescaped '(' not followed by '?' in a replacement template fragment."""
    n = 0
    i = 0
    while i < len(s):
        if s[i] == "\\":
            i += 2
            continue
        if s[i] == "(" and not s.startswith("(?", i):
            n += 1
        i += 1
    return n


def groups_in_regex(s):
    try:
        from re import _parser as sre_parse  # py3.11+
    except ImportError:  # pragma: no cover
        import sre_parse
    p = sre_parse.parse(s)
    return p.state.groups - 1


def run(ctx):
    repo = ctx.repo
    mod = repo.module(GF)
    n_tpl = 0
    for s in ast.walk(mod.tree):
        if isinstance(s, ast.Call) and call_attr(s) == "add" and call_recv(s) in REPLACERS and len(s.args) == 2:
            pat, repl = s.args
            where = f"{GF}:{call_recv(s)}.add({norm(pat)[:40]})"
            if isinstance(repl, ast.Constant) and isinstance(repl.value, str):
                n_tpl += 1
                g = capturing_groups_in_fragment(repl.value)
                ctx.check("no-capturing-template", where, g == 0, f"replacement {repl.value!r} introduces no capturing group", construct=repl.value, message=f"replacement template {repl.value!r} introduces {g} capturing group(s): match.lastindex no longer indexes the pattern list")
            elif isinstance(repl, ast.Call) and isinstance(repl.func, ast.Name) and repl.args and isinstance(repl.args[0], ast.Constant):
                n_tpl += 1
                g = capturing_groups_in_fragment(repl.args[0].value)
                ctx.check("no-capturing-template", where, g == 0, f"{norm(repl)} introduces no capturing group", construct=norm(repl))
            elif isinstance(repl, ast.Name):
                f = mod.get(repl.id)
                if isinstance(f, ast.FunctionDef):
                    n_tpl += 1
                    # only what can end up in the returned replacement text: literals inside return expressions
                    lits = [n.value for r_ in ast.walk(f) if isinstance(r_, ast.Return) and r_.value is not None for n in ast.walk(r_.value) if isinstance(n, ast.Constant) and isinstance(n.value, str)]
                    g = sum(capturing_groups_in_fragment(l) for l in lits)
                    ctx.check("no-capturing-template", where, g == 0, f"helper {repl.id} returns no capturing group (literals {lits})", construct=str(lits))
    ctx.require(n_tpl >= 20, f"only {n_tpl} replacement templates found (hand-confirmed: 24)")
    # user regexes: whatever the `_sub_re` rules are, no capturing group survives the translation (Globster.match maps
    # match.lastindex to the pattern list, one group per pattern).  The rules are read from the source and applied with a
    # small model of Replacer (one pass, leftmost match, first rule wins, `\&` = the matched text) to a table of RE: patterns.
    import re as _re

    rules_re = []
    for s_ in ast.walk(mod.tree):
        if isinstance(s_, ast.Call) and call_attr(s_) == "add" and call_recv(s_) == "_sub_re" and len(s_.args) == 2:
            pat_, rep_ = const_value(s_.args[0], None), s_.args[1]
            ctx.require(isinstance(pat_, str), f"{GF}:_sub_re.add: non-constant pattern {norm(s_.args[0])}")
            if isinstance(rep_, ast.Constant) and isinstance(rep_.value, str):
                rules_re.append((pat_, rep_.value))
            elif isinstance(rep_, ast.Call) and norm(rep_.func) == "_invalid_regex" and rep_.args and isinstance(const_value(rep_.args[0], None), str):
                rules_re.append((pat_, const_value(rep_.args[0])))
            else:
                rules_re.append((pat_, None))  # a function: modelled as leaving the text alone (the table avoids its cases)
    ctx.require(len(rules_re) >= 3, f"{GF}: only {len(rules_re)} _sub_re rules found")
    combined = _re.compile("|".join(f"({p})" for p, _ in rules_re))
    offsets, k_ = [], 1
    for p, _ in rules_re:
        offsets.append(k_)
        k_ += 1 + _re.compile(p).groups

    def _translate(text):
        def rep(m):
            for (p, r_), off in zip(rules_re, offsets):
                if m.group(off) is not None:
                    return m.group(0) if r_ is None else r_.replace("\\&", m.group(0))
            return m.group(0)

        return combined.sub(rep, text)

    table_re = ["RE:a(b)c", "RE:(a|b)", "RE:((a)b)", "RE:x\\\\(a|b)", "RE:x\\\\\\\\(a|b)y", "RE:(?:a)(b)", "RE:a(?=b)(c)", "RE:[ab](c)", "RE:(a)(b)(c)", "RE:foo/(bar|baz)/.*"]
    leaks = []
    for src_ in table_re:
        out = _translate(src_)
        try:
            groups = _re.compile(out).groups
        except _re.error as e_:
            leaks.append(f"{src_!r} -> {out!r} does not compile ({e_})")
            continue
        if groups:
            leaks.append(f"{src_!r} -> {out!r} keeps {groups} capturing group(s)")
    ctx.fact(len(table_re))
    ctx.check("user-regex-decapture", f"{GF}:_sub_re", not leaks, f"translating {len(table_re)} RE: patterns (nested groups, groups after escaped backslashes, look-aheads, several groups) leaves no capturing group", construct="; ".join(leaks)[:300], message=f"a user regex keeps a capturing group after translation ({'; '.join(leaks)[:300]}): Globster.match maps match.lastindex to the pattern list, so every pattern after it in the same batch is reported off by one — the reported pattern is not one that matches, and the result depends on how the patterns are grouped")
    # the translation keeps the language of the user's regex (differential table: the user's regex against its translation,
    # full match over all strings of length <= 4 over the pattern's own characters plus ':' and '?')
    import itertools as _it

    LANG = [
        ("plain-groups", "RE:a(b)c"), ("plain-groups", "RE:(a|b)"), ("plain-groups", "RE:x\\\\(a|b)"), ("plain-groups", "RE:(?:a)(b)"),
        ("escaped-paren", "RE:a\\(b\\)"), ("paren-in-class", "RE:[(]x"), ("named-groups", "RE:(?P<a>x)(?P<b>y)"),
    ]
    by_class = {}
    for cls_, src_ in LANG:
        r0 = src_[3:]
        r1 = _translate(src_)
        alpha = sorted({ch for ch in r0 if ch.isalnum() or ch in "()"} | {":", "?"})
        try:
            c0, c1 = _re.compile(r0), _re.compile(r1)
        except _re.error as e_:
            by_class.setdefault(cls_, []).append(f"{src_!r} -> {r1!r}: {e_}")
            continue
        for k in range(0, 5):
            hit = None
            for t in _it.product(alpha, repeat=k):
                s__ = "".join(t)
                if bool(c0.fullmatch(s__)) != bool(c1.fullmatch(s__)):
                    hit = s__
                    break
            if hit is not None:
                by_class.setdefault(cls_, []).append(f"{src_!r} is translated to {r1!r}, which {'matches' if c1.fullmatch(hit) else 'does not match'} {hit!r} (the user's regex {'matches' if c0.fullmatch(hit) else 'does not'})")
                break
    ctx.fact(len(LANG))
    for cls_ in sorted({c for c, _ in LANG}):
        if cls_ not in by_class:
            ctx.check("user-regex-language-preserved", f"{GF}:_sub_re[{cls_}]", True, f"RE: patterns of class {cls_} match the same strings before and after translation")
        else:
            ctx.violation("user-regex-language-preserved", f"{GF}:_sub_re[{cls_}]", by_class[cls_][0][:200], f"the translation of a user regex changes what it matches ({cls_}): {by_class[cls_][0]} — a path is reported ignored (or not) against the documented meaning of the RE: pattern")
    # prefixes
    gl = repo.cls(GF, "Globster")
    pi = [s for s in gl.body if isinstance(s, ast.Assign) and norm(s.targets[0]) == "pattern_info"]
    ctx.require(len(pi) == 1 and isinstance(pi[0].value, ast.Dict), f"{GF}:Globster.pattern_info not found")
    kinds = {}
    for k, v in zip(pi[0].value.keys, pi[0].value.values):
        d = {const_value(a): b for a, b in zip(v.keys, v.values)}
        kinds[const_value(k)] = d
        pref = const_value(d["prefix"])
        ctx.check("no-capturing-prefix", f"{GF}:Globster.pattern_info[{const_value(k)!r}]", isinstance(pref, str) and groups_in_regex(pref) == 0, f"prefix {pref!r} has no capturing group", construct=str(pref))
    # extension and basename patterns are matched against the last path component: their translators' wildcards can
    # match "/" themselves, so it is the prefix's negative lookahead "no further slash" — (?!.*/) — that confines them
    import re as _re

    def _has_no_more_slash_assertion(pref):
        try:
            parsed = _re._parser.parse(pref)
        except Exception:
            return False
        for op, av in parsed:
            if str(op) == "ASSERT_NOT" and av[0] == 1:
                items = list(av[1])
                if len(items) == 2 and str(items[0][0]) == "MAX_REPEAT" and [str(x[0]) for x in items[0][1][2]] == ["ANY"] and str(items[1][0]) == "LITERAL" and items[1][1] == ord("/"):
                    return True
        return False

    for kind_ in ("extension", "basename"):
        if kind_ in kinds:
            pref = const_value(kinds[kind_]["prefix"])
            ctx.check("last-component-only", f"{GF}:Globster.pattern_info[{kind_!r}]", isinstance(pref, str) and _has_no_more_slash_assertion(pref), f"the {kind_} prefix {pref!r} asserts that no '/' follows (the pattern is confined to the last path component)", construct=str(pref), message=f"the {kind_} prefix {pref!r} no longer contains the (?!.*/) assertion: the translated wildcards match '/' as well, so e.g. '*.~*' matches 'old.~1~/README' — files inside a directory whose name merely looks like the pattern are ignored")
    ctx.check("pattern-kinds", f"{GF}:Globster.pattern_info", set(kinds) == {"extension", "basename", "fullpath"} and norm(kinds["extension"]["translator"]) == "_sub_extension" and norm(kinds["basename"]["translator"]) == "_sub_basename" and norm(kinds["fullpath"]["translator"]) == "_sub_fullpath", "three pattern kinds with their translators")
    # _add_patterns
    from ..astutil import bind_roles, canonicalise

    fa = repo.func(GF, "Globster._add_patterns")
    wa = f"{GF}:Globster._add_patterns"
    fa = canonicalise(fa, bind_roles(fa, {"grouped_rules": ("assign", lambda t, n: isinstance(n, ast.ListComp) and "translator(" in t), "pat": ("for", "~patterns\\[:\\d+\\]")}, wa))
    src = norm(fa)
    fstrs = [n for n in walk_own(fa) if isinstance(n, ast.JoinedStr)]
    one_group = any(norm(n) == "f'({translator(pat)})'" for n in fstrs)
    joined = [norm(n) for n in fstrs if "join(grouped_rules)" in norm(n)]
    ctx.check("one-group-per-pattern", wa, one_group, "each translated pattern is wrapped in exactly one capturing group")
    ctx.check("one-group-per-pattern", wa, len(joined) == 1 and joined[0].startswith("f\"{prefix}(?:{'|'.join(grouped_rules)})$") or (len(joined) == 1 and "{prefix}(?:" in joined[0] and joined[0].rstrip("'\"").endswith(")$")), "the alternatives are joined inside a non-capturing group after the prefix", construct=str(joined))
    bounds = []
    for n in walk_own(fa):
        if isinstance(n, ast.Subscript) and norm(n.value) == "patterns" and isinstance(n.slice, ast.Slice):
            lo, hi = n.slice.lower, n.slice.upper
            bounds.append(("upto", const_value(hi)) if lo is None else ("from", const_value(lo)))
    vals = {b for _, b in bounds}
    ctx.check("batch-constant", wa, len(vals) == 1 and all(isinstance(v, int) and 0 < v <= 99 for v in vals) and sorted(k for k, _ in bounds) == ["from", "upto", "upto"], f"batch slices use one constant <= 99: {bounds}", construct=str(bounds), message=f"the batch is built from patterns{bounds} — the slices disagree, so patterns are skipped or attributed to the wrong index")
    app = [c for c in calls_in(fa) if call_attr(c) == "append" and call_recv(c) == "self._regex_patterns"]
    ok = len(app) == 1 and isinstance(app[0].args[0], ast.Tuple) and norm(app[0].args[0].elts[1]).startswith("patterns[:")
    ctx.check("batch-constant", wa, ok, "the compiled batch is stored together with the slice it was built from")
    fm = repo.func(GF, "Globster.match")
    fm = canonicalise(fm, bind_roles(fm, {"match": ("assign", "~\\w+\\.match\\(filename\\)")}, f"{GF}:Globster.match"))
    _mt = [n for n in walk_own(fm) if isinstance(n, ast.For) and norm(n.iter) == "self._regex_patterns" and isinstance(n.target, ast.Tuple) and len(n.target.elts) == 2 and any(isinstance(r, ast.Return) for r in ast.walk(n))]
    if len(_mt) == 1:
        fm = canonicalise(fm, {"regex": norm(_mt[0].target.elts[0]), "patterns": norm(_mt[0].target.elts[1])})
    ctx.check("match-index", f"{GF}:Globster.match", any(norm(r.value) == "patterns[match.lastindex - 1]" for r in walk_own(fm) if isinstance(r, ast.Return)) and any(isinstance(n, ast.For) and norm(n.target) == "(regex, patterns)" and norm(n.iter) == "self._regex_patterns" for n in walk_own(fm)), "match() returns patterns[match.lastindex - 1] from the batch that matched")
    # identify
    fi = repo.func(GF, "Globster.identify")
    tests = [norm(n.test) for n in walk_own(fi) if isinstance(n, ast.If)]
    rets = [const_value(r.value) for r in walk_own(fi) if isinstance(r, ast.Return)]
    ctx.check("identify-order", f"{GF}:Globster.identify", tests[:2] == ["pattern.startswith('RE:') or '/' in pattern", "pattern.startswith('*.')"] and rets == ["fullpath", "extension", "basename"], "RE:/slash -> fullpath, then '*.' -> extension, else basename", construct=f"{tests} {rets}")
    fe = repo.func(GF, "_sub_extension")
    ctx.check("identify-order", f"{GF}:_sub_extension", any(norm(r.value) == "_sub_basename(pattern[2:])" for r in walk_own(fe) if isinstance(r, ast.Return)), "the extension translator strips exactly the '*.' it was identified by")
    # ---- ExceptionGlobster ---------------------------------------------------------------
    fx = repo.func(GF, "ExceptionGlobster.__init__")
    wx = f"{GF}:ExceptionGlobster.__init__"
    fx = canonicalise(fx, bind_roles(fx, {"ignores": ("assign", "[[], [], []]"), "p": ("for", "patterns")}, wx))
    chain = []
    for n in walk_own(fx):
        if isinstance(n, ast.If) and isinstance(n.test, ast.Call) and call_attr(n.test) == "startswith":
            pre = const_value(n.test.args[0])
            app = [c for c in calls_in(ast.Module(body=n.body, type_ignores=[])) if call_attr(c) == "append"]
            if app:
                tgt = norm(app[0].func.value)
                arg = app[0].args[0]
                strip = const_value(arg.slice.lower) if isinstance(arg, ast.Subscript) and isinstance(arg.slice, ast.Slice) else None
                chain.append((n.lineno, pre, tgt, strip))
    chain.sort()
    ok = [c[1:] for c in chain] == [("!!", "ignores[2]", 2), ("!", "ignores[1]", 1)]
    ctx.check("exception-prefixes", wx, ok, "'!!' is tested before '!', each stripped by its own length into lists 2 and 1", construct=str([c[1:] for c in chain]), message=f"exception prefixes are classified as {[c[1:] for c in chain]}: '!!' patterns would be filed as single exceptions or keep part of their prefix")
    ctx.check("exception-prefixes", wx, "ignores[0].append(p)" in norm(fx) and "self._ignores = [Globster(i) for i in ignores]" in norm(fx), "plain patterns go to list 0 and each list becomes a Globster")
    fmx = repo.func(GF, "ExceptionGlobster.match")
    wm = f"{GF}:ExceptionGlobster.match"
    for bits in range(8):
        m2, m1, m0 = bool(bits & 4), bool(bits & 2), bool(bits & 1)
        res = {2: "P2" if m2 else None, 1: "P1" if m1 else None, 0: "P0" if m0 else None}

        def hook(interp, call, name, ev_args, env, res=res):
            if call_attr(call) == "match" and isinstance(call.func.value, ast.Subscript) and norm(call.func.value.value) == "self._ignores":
                return res[const_value(call.func.value.slice)]
            return NotImplemented

        it = Interp(call_hook=hook)
        me = Obj("eg")
        me.set("_ignores", [Opaque("g0"), Opaque("g1"), Opaque("g2")])
        # f-string support: evaluate JoinedStr by a tiny hook
        it.e_JoinedStr = lambda e, env: "".join(str(v.value) if isinstance(v, ast.Constant) else str(it.expr(v.value, env)) for v in e.values)
        try:
            got = it.call(fmx, {"self": me, "filename": "f"})
        except Raised as r:
            got = "raise:" + r.name
        want = "!!P2" if m2 else (None if m1 else ("P0" if m0 else None))
        row = f"double-exception={int(m2)} exception={int(m1)} plain={int(m0)}"
        ctx.check("exception-precedence", wm, got == want, f"{row} -> {want!r}", construct=f"{row} -> {got!r}", message=f"precedence wrong for {row}: got {got!r}, want {want!r} ('!!' overrides '!' overrides plain)")
    # ---- fourth round: every working tree matches its ignore lists with the matcher that knows '!' and '!!' -------------
    n_matchers = 0
    for rel_ in ("breezy/bzr/workingtree.py", "breezy/git/workingtree.py", "breezy/workingtree.py"):
        if not repo.exists(rel_):
            continue
        for q_, f_ in repo.module(rel_).functions().items():
            for a in ast.walk(f_):
                if isinstance(a, ast.Assign) and any(isinstance(t, ast.Attribute) and "ignoreglobster" in t.attr for t in a.targets) and isinstance(a.value, ast.Call):
                    n_matchers += 1
                    cls_ = norm(a.value.func).split(".")[-1]
                    ctx.check("tree-matcher-knows-exceptions", f"{rel_}:{q_}", cls_ == "ExceptionGlobster", "the matcher a working tree builds from its ignore lists is an ExceptionGlobster ('!pattern' un-ignores, '!!pattern' ignores for good)", construct=norm(a)[:90], message=f"{q_} builds its ignore matcher with `{norm(a.value.func)}`: '!pat' and '!!pat' lines of the user-wide and runtime ignore lists lose their precedence in this kind of tree — keep.log is reported ignored by '*.log' despite '!keep.log'")
    ctx.require(n_matchers >= 2, f"ignore matchers of the working trees found: {n_matchers} (expected the bzr and the git tree)")


MUTANTS = [
    Mutant("git tree matches global ignores without exception patterns", "breezy/git/workingtree.py", "            self._global_ignoreglobster = globbing.ExceptionGlobster(ignore_globs)\n", "            self._global_ignoreglobster = globbing.Globster(sorted(ignore_globs))\n", expect="tree-matcher-knows-exceptions"),
    Mutant("escaped parens rewritten again (fix 720ceeb reverted, first rule)", GF, '_sub_re.add(r"\\\\.", r"\\&")  # keep anything backslashed: \\( is not a group\n', '', expect="user-regex-language-preserved"),
    Mutant("named-group rule greedy again (fix 720ceeb reverted, third rule)", GF, '_sub_re.add("\\\\(\\\\?P<[^>]*>", _invalid_regex("(?:"))', '_sub_re.add("\\\\(\\\\?P<.*>", _invalid_regex("(?:"))', expect="user-regex-language-preserved"),
    Mutant("extension prefix loses the no-more-slash assertion", GF, "            \"prefix\": r\"(?:.*/)?(?!.*/)(?:.*\\.)\",", "            \"prefix\": r\"(?:.*\\.)\",", expect="last-component-only"),
    Mutant("capturing replacement for **/", GF, "r\"(?:.*/)?\")  # **/ after ^ or /", "r\"(.*/)?\")  # **/ after ^ or /", expect="no-capturing-template"),
    Mutant("batch slices disagree", GF, "            grouped_rules = [f\"({translator(pat)})\" for pat in patterns[:99]]", "            grouped_rules = [f\"({translator(pat)})\" for pat in patterns[:98]]", expect="batch-constant"),
    Mutant("'!' tested before '!!'", GF, "            if p.startswith(\"!!\"):\n                ignores[2].append(p[2:])\n            elif p.startswith(\"!\"):\n                ignores[1].append(p[1:])", "            if p.startswith(\"!\"):\n                ignores[1].append(p[1:])\n            elif p.startswith(\"!!\"):\n                ignores[2].append(p[2:])", expect="exception-prefixes"),
    Mutant("exception checked before double exception", GF, "        double_neg = self._ignores[2].match(filename)\n        if double_neg:\n            return f\"!!{double_neg}\"\n        elif self._ignores[1].match(filename):\n            return None", "        double_neg = self._ignores[2].match(filename)\n        if self._ignores[1].match(filename):\n            return None\n        elif double_neg:\n            return f\"!!{double_neg}\"", expect="exception-precedence"),
    Mutant("extension prefix gains a capturing group", GF, "            \"prefix\": r\"(?:.*/)?(?!.*/)(?:.*\\.)\",", "            \"prefix\": r\"(?:.*/)?(?!.*/)(.*\\.)\",", expect="no-capturing-prefix"),
    Mutant("neutral: batch size changed consistently", GF, "            grouped_rules = [f\"({translator(pat)})\" for pat in patterns[:99]]\n            joined_rule = f\"{prefix}(?:{'|'.join(grouped_rules)})$\"\n            # Explicitly use lazy_compile here, because we count on its\n            # nicer error reporting.\n            self._regex_patterns.append(\n                (lazy_regex.lazy_compile(joined_rule, re.UNICODE), patterns[:99])\n            )\n            patterns = patterns[99:]", "            grouped_rules = [f\"({translator(pat)})\" for pat in patterns[:50]]\n            joined_rule = f\"{prefix}(?:{'|'.join(grouped_rules)})$\"\n            # Explicitly use lazy_compile here, because we count on its\n            # nicer error reporting.\n            self._regex_patterns.append(\n                (lazy_regex.lazy_compile(joined_rule, re.UNICODE), patterns[:50])\n            )\n            patterns = patterns[50:]", neutral=True),
]
