"""C51 — rebase plans: persistence format agreement only."""

import ast

from ..astutil import call_attr, call_recv, calls_in, const_value, norm, walk_own
from ..index import AnalysisError
from ..selftest import Mutant

ID = "C51"
TECHNIQUE = "writer/reader template and separator agreement (K6) for the rebase plan file and the state file names (ast)"
FLOOR = 12
RB = "breezy/plugins/rewrite/rebase.py"
EXPLANATION = """
K6, persistence only: marshall_rebase_plan and unmarshall_rebase_plan agree on (a) the header template (same bytes
literal up to the trailing newline, same version constant) and the reader refuses another header; (b) the second line
"<revno> <revid>" written with one space and read by split(b" ", 1) with int() on the first part; (c) each plan line
"old new parent..." written with single-space separators and read by split(b" ") into key pts[0], value (pts[1],
tuple(pts[2:])); lines are terminated by the newline the reader splits on; (d) RebaseState1 reads and writes the plan and
the current revision id under the same file-name constants.
(e) plan generation, two structural necessary conditions only: generate_simple_plan replays the whole slice of the
topological order from start to stop (no filtering), and generate_transpose_plan recomputes an already processed child
when another of its parents is rewritten.
(f) rebase_todo reports each plan entry on its own has_revision() test; the test mentions nothing assigned inside the
loop.
(g) round-trip table: both functions are evaluated by the abstract interpreter (sa/absint.py, no breezy code is run) on a
table of plans — empty plan, entries with 0-3 parents, several entries, revno 0, revision ids with the punctuation real
ids carry (':', '@', '#', '-'; revision ids contain no whitespace) — and the result must equal the input including the
entry order; a header with another version digit must be refused.
(h) state table: the RebaseState1 methods are evaluated the same way with the transport modelled as a dictionary
(put_bytes/get_bytes, NoSuchFile when absent): has_plan/read_plan see what write_plan stored, remove_plan empties it,
read_active_revid returns what write_active_revid stored (None included), and the two use two distinct files.
(i) rebase() iterates graph.iter_topo_order(...) of the plan keys when it calls the rewriter (third round).
Fourth round: stored-plan-is-whole-plan — RebaseState1.write_plan marshals its replace_map parameter itself (decided before the table, which
is fail-closed). todo-set-relative-to-new-base — cmd_rebase.run plans find_difference(stop, onto)[0] with the same stop/onto it passes on.
Does not decide: plan contents and ordering beyond (e) (graph values) — not applicable to static analysis.
"""


def run(ctx):
    repo = ctx.repo
    # ---- fourth round: the stored plan is the whole plan; the revisions to rewrite are counted from the new base -----------
    fwp = repo.func(RB, "RebaseState1.write_plan")
    pmap = fwp.args.args[1].arg
    mars = [c for c in calls_in(fwp) if (call_attr(c) or norm(c.func)) == "marshall_rebase_plan"]
    reassigned = any(isinstance(a, (ast.Assign, ast.AugAssign)) and any(isinstance(t, ast.Name) and t.id == pmap for t in (a.targets if isinstance(a, ast.Assign) else [a.target])) for a in ast.walk(fwp))
    whole = len(mars) == 1 and len(mars[0].args) == 2 and isinstance(mars[0].args[1], ast.Name) and mars[0].args[1].id == pmap and not reassigned
    ctx.check("stored-plan-is-whole-plan", f"{RB}:RebaseState1.write_plan", whole, f"write_plan marshals the `{pmap}` it was given, unfiltered", construct="; ".join(norm(c)[:70] for c in mars), message=f"write_plan does not hand its `{pmap}` argument to marshall_rebase_plan as it is ({'; '.join(norm(c)[:60] for c in mars) or 'no marshalling call'}): entries are dropped or rewritten on the way to disk, read_plan() returns another plan than the one saved — a continued rebase loses the mapping of revisions it still has to refer to")
    RC_ = "breezy/plugins/rewrite/commands.py"
    frb = repo.func(RC_, "cmd_rebase.run")
    plans = [c for c in calls_in(frb) if (call_attr(c) or norm(c.func)) == "generate_simple_plan" and len(c.args) >= 4]
    diffs = [a for a in ast.walk(frb) if isinstance(a, ast.Assign) and isinstance(a.value, ast.Call) and call_attr(a.value) == "find_difference" and len(a.value.args) == 2]
    ctx.require(len(plans) == 1 and len(diffs) == 1, f"{RC_}:cmd_rebase.run: generate_simple_plan(..)/find_difference(..) not found")
    todo_arg, stop_arg, onto_arg = norm(plans[0].args[0]), norm(plans[0].args[2]), norm(plans[0].args[3])
    tgt0 = diffs[0].targets[0]
    first_out = norm(tgt0.elts[0]) if isinstance(tgt0, (ast.Tuple, ast.List)) and tgt0.elts else norm(tgt0)
    ok_onto = first_out == todo_arg and norm(diffs[0].value.args[0]) == stop_arg and norm(diffs[0].value.args[1]) == onto_arg
    ctx.check("todo-set-relative-to-new-base", f"{RC_}:cmd_rebase.run", ok_onto, f"the set handed to generate_simple_plan is find_difference({stop_arg}, {onto_arg})[0]: the revisions of the branch that the new base does not have", construct=norm(diffs[0])[:90], message=f"cmd_rebase.run plans `{todo_arg}` = `{norm(diffs[0].value)[:70]}` but rebases onto `{onto_arg}`: with --onto older than the upstream tip, revisions the branch shares with upstream after that point are left out of the plan and rewritten revisions keep un-rewritten parents outside the new base")
    fw = repo.func(RB, "marshall_rebase_plan")
    fr = repo.func(RB, "unmarshall_rebase_plan")
    wl = [n.value for n in walk_own(fw) if isinstance(n, ast.Constant) and isinstance(n.value, bytes)]
    rl = [n.value for n in walk_own(fr) if isinstance(n, ast.Constant) and isinstance(n.value, bytes)]
    hw = [b for b in wl if b.startswith(b"#")]
    hr = [b for b in rl if b.startswith(b"#")]
    ww = f"{RB}:marshall_rebase_plan"
    wr = f"{RB}:unmarshall_rebase_plan"
    ctx.check("header", ww, len(hw) == 1 and len(hr) == 1 and hw[0] == hr[0] + b"\n", f"header written {hw} == header expected {hr} + newline", construct=f"{hw} / {hr}", message=f"rebase plan header differs between writer {hw} and reader {hr}")
    ctx.check("header", wr, "REBASE_PLAN_VERSION" in norm(fw) and "REBASE_PLAN_VERSION" in norm(fr) and any(isinstance(n, ast.Raise) for n in walk_own(fr)), "both sides use REBASE_PLAN_VERSION and the reader refuses an unknown header")
    ctx.check("line-terminator", wr, any(call_attr(c) == "split" and call_recv(c) == "text" and const_value(c.args[0]) == b"\n" for c in calls_in(fr)) and all(b.endswith(b"\n") for b in wl if b"%d %s" in b or b == b"\n"), "lines are newline terminated and the reader splits on newline")
    ctx.check("revision-info-line", ww, b"%d %s\n" in wl, "line 2 is written as '<revno> <revid>'")
    from ..astutil import bound_names, loop_targets

    splits = [(norm(c.func.value), [const_value(a) for a in c.args]) for c in calls_in(fr) if call_attr(c) == "split"]
    # role binding: locals of the reader by what they hold
    v_lines = bound_names(fr, lambda t, n: t == "text.split(b'\\n')")
    ret = [r.value for r in walk_own(fr) if isinstance(r, ast.Return) and isinstance(r.value, ast.Tuple) and len(r.value.elts) == 2]
    ok_bind = len(v_lines) == 1 and len(ret) == 1
    LN = v_lines[0] if v_lines else "?"
    v_info, v_map = (norm(e) for e in ret[0].elts) if ret else ("?", "?")
    p1 = bound_names(fr, lambda t, n: t == f"{LN}[1].split(b' ', 1)")
    ok1 = ok_bind and len(p1) == 1 and any(isinstance(s_, ast.Assign) and norm(s_.targets[0]) == v_info and norm(s_.value) == f"(int({p1[0]}[0]), {p1[0]}[1])" for s_ in walk_own(fr))
    ctx.check("revision-info-line", wr, ok1, "line 2 is read as (int(first), rest) split on the first space", construct=str(splits))
    ctx.check("plan-lines", ww, b"%s %s" in wl and b" %s" in wl, "plan lines are 'old new' followed by ' parent' items")
    lt = loop_targets(fr, lambda t, n: t == f"{LN}[2:]")
    LV = lt[0][0] if len(lt) == 1 else "?"
    p2 = bound_names(fr, lambda t, n: t == f"{LV}.split(b' ')")
    ok2 = ok_bind and len(p2) == 1 and any(isinstance(s_, ast.Assign) and norm(s_.targets[0]) == f"{v_map}[{p2[0]}[0]]" and norm(s_.value) == f"({p2[0]}[1], tuple({p2[0]}[2:]))" for s_ in walk_own(fr))
    ctx.check("plan-lines", wr, ok2, "plan lines are read as old -> (new, tuple(parents)) split on single spaces", construct=str(splits))
    wloop = [n for n in walk_own(fw) if isinstance(n, ast.For)]
    ctx.check("plan-lines", ww, len(wloop) == 1 and norm(wloop[0].iter) == "replace_map" and any(norm(s_.value) == f"replace_map[{norm(wloop[0].target)}]" for s_ in walk_own(wloop[0]) if isinstance(s_, ast.Assign)), "every entry of the replace map is written")
    rloop = [n for n in walk_own(fr) if isinstance(n, ast.For)]
    ctx.check("plan-lines", wr, len(rloop) == 1 and norm(rloop[0].iter) == f"{LN}[2:]", "every line after the two header lines is read")
    # ---- plan generation: two structural necessary conditions (the plan's values stay undecided) -------------------
    fg = repo.func(RB, "generate_simple_plan")
    wg = f"{RB}:generate_simple_plan"
    from ..astutil import bind_roles, canonicalise

    fg = canonicalise(fg, bind_roles(fg, {"order": ("assign", "~topo_sort\\(.*\\)"), "replace_map": ("return", None, None)}, wg))
    main = [n for n in walk_own(fg) if isinstance(n, ast.For) and any(isinstance(x, ast.Subscript) and isinstance(x.ctx, ast.Store) and norm(x.value) == "replace_map" for x in ast.walk(n))]
    ctx.require(len(main) == 1 and isinstance(main[0].iter, ast.Name), f"{wg}: the loop that fills replace_map was not found")
    todo = main[0].iter.id
    single = {}
    for s_ in walk_own(fg):
        if isinstance(s_, ast.Assign) and len(s_.targets) == 1 and isinstance(s_.targets[0], ast.Name):
            single.setdefault(s_.targets[0].id, []).append(s_.value)

    def resolve(e, depth=0):
        """Inline temporaries that are assigned exactly once."""
        if isinstance(e, ast.Name) and len(single.get(e.id, [])) == 1 and e.id not in ("order", "start_revid", "stop_revid") and depth < 4:
            return resolve(single[e.id][0], depth + 1)
        return e

    tv = [resolve(v) for v in single.get(todo, [])]
    ok = len(tv) == 1 and isinstance(tv[0], ast.Subscript) and norm(tv[0].value) == "order" and isinstance(tv[0].slice, ast.Slice)
    if ok:
        lo, hi = resolve(tv[0].slice.lower) if tv[0].slice.lower is not None else None, resolve(tv[0].slice.upper) if tv[0].slice.upper is not None else None
        ok = lo is not None and norm(lo) == "order.index(start_revid)" and hi is not None and isinstance(hi, ast.BinOp) and isinstance(hi.op, ast.Add) and {norm(resolve(hi.left)), norm(resolve(hi.right))} == {"order.index(stop_revid)", "1"}
    ctx.check("plan-covers-range", wg, ok, "the revisions replayed are the whole slice of the topological order from start_revid to stop_revid inclusive (nothing between them is filtered out)", construct="; ".join(norm(v)[:80] for v in single.get(todo, [])), message=f"the set of revisions to replay is no longer order[index(start) : index(stop) + 1] ({'; '.join(norm(v)[:80] for v in single.get(todo, []))}): a revision of the branch that sorts between start and stop but is dropped keeps its old id while its descendants are rewritten onto it")
    ft = repo.func(RB, "generate_transpose_plan")
    wt = f"{RB}:generate_transpose_plan"
    from ..cfg import build_cfg

    ft = canonicalise(ft, bind_roles(ft, {"replace_map": ("return", None, None), "processed": ("assign", "set()")}, wt))
    ch = sorted({norm(n.value) for n in ast.walk(ft) if isinstance(n, ast.Subscript) and isinstance(n.ctx, ast.Store) and isinstance(n.value, ast.Name) and isinstance(n.parent if hasattr(n, "parent") else None, type(None)) and any(isinstance(s_, ast.Assign) and s_.targets[0] is n and norm(s_.value) == "[]" for s_ in ast.walk(ft))})
    if len(ch) == 1:
        ft = canonicalise(ft, {"children": ch[0]})
    gt = build_cfg(ft)
    rec = [n.id for n in gt.nodes if n.kind == "stmt" and isinstance(n.ast, ast.Assign) and isinstance(n.ast.targets[0], ast.Subscript) and norm(n.ast.targets[0].value) == "replace_map" and isinstance(n.ast.value, ast.Tuple)]
    inner = [n for n in gt.nodes if n.kind == "for" and norm(n.ast.iter).startswith("children[")]
    ctx.require(bool(rec) and len(inner) == 1, f"{wt}: the child loop / replace_map update was not found")
    cv = norm(inner[0].ast.target)
    g_seen = gt.assume({f"{cv} in processed": True, f"{cv} not in processed": False, f"{cv} in renames": False, f"{cv} not in renames": True})
    ctx.check("transpose-recomputes-per-parent", wt, bool(set(rec) & g_seen.reach([inner[0].id])), "a child that was already processed is recomputed again when another of its parents is rewritten (only re-queueing is skipped)", message="a child already processed is skipped when a further rewritten parent reaches it: a merge below the transposed revisions keeps the old id of its second rewritten parent")
    # state file names
    cls = repo.cls(RB, "RebaseState1")
    uses = {}
    for item in cls.body:
        if isinstance(item, ast.FunctionDef):
            for c in calls_in(item):
                if call_attr(c) in ("get_bytes", "put_bytes", "has", "delete") and c.args and isinstance(c.args[0], ast.Name):
                    uses.setdefault(c.args[0].id, set()).add(call_attr(c))
                elif call_attr(c) in ("get_bytes", "put_bytes") and c.args and isinstance(c.args[0], ast.Constant):
                    uses.setdefault(repr(c.args[0].value), set()).add(call_attr(c))
    ok = all({"get_bytes", "put_bytes"} <= v for k, v in uses.items()) and set(uses) == {"REBASE_PLAN_FILENAME", "REBASE_CURRENT_REVID_FILENAME"}
    ctx.check("state-file-names", f"{RB}:RebaseState1", ok, f"plan and current-revid files are read and written under the same constants {sorted(uses)}", construct=str({k: sorted(v) for k, v in uses.items()}), message="a rebase state file is written under one name and read under another")
    wp = repo.func(RB, "RebaseState1.write_plan")
    rp = repo.func(RB, "RebaseState1.read_plan")
    for a, b, what in ((wp, rp, "plan"), (repo.func(RB, "RebaseState1.write_active_revid"), repo.func(RB, "RebaseState1.read_active_revid"), "current revision id")):
        na = {norm(c.args[0]) for c in calls_in(a) if call_attr(c) == "put_bytes" and c.args}
        nb = {norm(c.args[0]) for c in calls_in(b) if call_attr(c) == "get_bytes" and c.args}
        ctx.check("state-file-names", f"{RB}:RebaseState1", len(na) == 1 and na == nb, f"the {what} is written to and read from the same file {sorted(na)}", construct=f"write {sorted(na)} / read {sorted(nb)}", message=f"the {what} is written to {sorted(na)} but read from {sorted(nb)}")
    ctx.check("state-file-names", f"{RB}:RebaseState1", any(call_attr(c) == "marshall_rebase_plan" for c in calls_in(wp)) and any(call_attr(c) == "unmarshall_rebase_plan" for c in calls_in(rp)), "write_plan marshals and read_plan unmarshals")

    # ---- (f) rebase_todo decides every plan entry on its own -----------------------------------------------------------
    # "exactly the revisions whose replacement is absent": the yield is guarded by a per-entry has_revision() test that
    # mentions nothing assigned inside the loop (no flag carried over from earlier entries — replay order is not plan order)
    ft = repo.func(RB, "rebase_todo")
    wt_ = f"{RB}:rebase_todo"
    loops_ = [l_ for l_ in walk_own(ft) if isinstance(l_, ast.For) and any(isinstance(y, ast.Yield) for y in ast.walk(l_))]
    ctx.require(len(loops_) == 1, f"{wt_}: the loop over the plan was not found")
    lp = loops_[0]
    targets = {n.id for n in ast.walk(lp.target) if isinstance(n, ast.Name)}
    carried = {n.id for st in ast.walk(lp) if isinstance(st, (ast.Assign, ast.AugAssign, ast.AnnAssign)) for t_ in (st.targets if isinstance(st, ast.Assign) else [st.target]) for n in ast.walk(t_) if isinstance(n, ast.Name)} - targets
    guards = [i for i in ast.walk(lp) if isinstance(i, ast.If) and any(isinstance(y, ast.Yield) for s_ in i.body + i.orelse for y in ast.walk(s_))]
    used = {n.id for g_ in guards for n in ast.walk(g_.test) if isinstance(n, ast.Name)}
    asks = any(call_attr(c) == "has_revision" for g_ in guards for c in calls_in(g_.test))
    ctx.check("todo-decided-per-entry", wt_, bool(guards) and asks and not (used & carried), "each plan entry is reported as pending on its own has_revision() test", construct=str(sorted(used & carried)), message=f"rebase_todo decides an entry with state carried over from earlier entries ({sorted(used & carried)}) or without asking has_revision: after an interrupted replay of a non-linear plan, revisions that were already replayed are listed as still to do (replay order is not plan order)")

    # ---- (g) round-trip table by abstract evaluation of the two functions ------------------------------------------------
    from ..absint import Interp, Raised, Unsupported, module_regex_hook

    def _pos(f_, *vals):
        return dict(zip([a.arg for a in f_.args.args], vals))

    it = Interp(name_hook=module_regex_hook(repo.module(RB).tree), loop_bound=256)
    wrt = f"{RB}:marshall_rebase_plan/unmarshall_rebase_plan"
    ids = [b"a", b"null:", b"joe@example.com-20240101-abcdef", b"git-v1:0123abcd", b"svn-v4:uuid:path:12", b"x#y", b"1"]
    plans = [{}]
    plans += [{ids[i]: (ids[(i + 1) % len(ids)], tuple(ids[(i + 2 + k) % len(ids)] for k in range(n)))} for i in range(len(ids)) for n in (0, 1, 2, 3)]
    plans += [{ids[i]: (ids[-1 - i], tuple(ids[:k])) for i, k in zip(range(4), (0, 2, 1, 3))}, {i_: (i_ + b"'", ()) for i_ in ids}]
    infos = [(0, b"null:"), (1, ids[2]), (12345, ids[4])]
    bad, evaluable = [], True
    try:
        for info in infos:
            for plan in plans:
                it.steps = 0
                text = it.call(fw, _pos(fw, info, plan))
                try:
                    back = it.call(fr, _pos(fr, text))
                except Raised as r:
                    back = ("raises", r.name)
                if back != (info, plan) or (isinstance(back, tuple) and len(back) == 2 and isinstance(back[1], dict) and list(back[1]) != list(plan)):
                    bad.append((info, plan, text, back))
        it.steps = 0
        good = it.call(fw, _pos(fw, infos[1], plans[1]))
        hdr, rest = good.split(b"\n", 1)
        other = hdr[:-1] + (b"9" if hdr[-1:] != b"9" else b"8") + b"\n" + rest
        try:
            it.call(fr, _pos(fr, other))
            refused = False
        except Raised:
            refused = True
    except (Raised, Unsupported, AttributeError, TypeError, ValueError) as ex:
        evaluable = False
        raise AnalysisError(f"{wrt}: not evaluable by the abstract interpreter ({ex}) — hand-confirmed evaluable on the pinned tree, so the rule cannot be decided on this one")
    if evaluable:
        ctx.fact(len(infos) * len(plans) + 1)
        ctx.check("plan-roundtrip-table", wrt, not bad, f"unmarshall(marshall(info, plan)) == (info, plan), entry order kept, for {len(infos) * len(plans)} plans (empty plan, 0-3 parents, several entries, revno 0, ids with ':', '@', '#', '-')", construct=repr(bad[0][1:])[:200] if bad else "", message=f"a saved rebase plan does not load back unchanged: plan {bad[0][1] if bad else ''!r} is written as {bad[0][2] if bad else b''!r} and read as {bad[0][3] if bad else ''!r} — an interrupted rebase continues with different parents or loses entries")
        ctx.check("plan-roundtrip-table", wr, refused, "a plan file whose header names another version is refused", message="unmarshall_rebase_plan accepts a plan file with a different version header")

    # ---- (h) the state object: what write_* stores is what read_*/has_plan see (transport modelled as a dict) --------------
    from ..absint import Obj

    files = {}
    cur_info = [infos[1]]
    _mh = module_regex_hook(repo.module(RB).tree)

    def _names(name):
        v = _mh(name)
        return {"NULL_REVISION": b"null:"}.get(name, NotImplemented) if v is NotImplemented else v

    def _hook(interp, call, name, ev_args, env):
        if name in ("marshall_rebase_plan", "unmarshall_rebase_plan"):
            f_ = repo.func(RB, name)
            args, kw = ev_args()
            return interp.call(f_, {**dict(zip([a.arg for a in f_.args.args], args)), **kw})
        if name == "self.transport.put_bytes":
            args, _ = ev_args()
            files[args[0]] = args[1]
            return None
        if name == "self.transport.get_bytes":
            args, _ = ev_args()
            if args[0] not in files:
                raise Raised("NoSuchFile", (args[0],), call)
            return files[args[0]]
        if name == "self.wt.update_feature_flags":
            return None
        if name == "self.wt.branch.last_revision_info":
            return cur_info[0]
        return NotImplemented

    its = Interp(call_hook=_hook, name_hook=_names, loop_bound=256)
    # the state object is built by evaluating RebaseState1.__init__ itself, so attributes it initialises exist
    st = Obj("state")
    try:
        its.call(repo.func(RB, "RebaseState1.__init__"), _pos(repo.func(RB, "RebaseState1.__init__"), st, Obj("wt", _transport=Obj("transport"), branch=Obj("branch"))))
    except (Raised, Unsupported) as ex:
        raise AnalysisError(f"{RB}:RebaseState1.__init__ not evaluable by the abstract interpreter ({ex})")
    wst = f"{RB}:RebaseState1"

    def _m(meth, *vals):
        its.steps = 0
        try:
            return its.call(repo.func(RB, f"RebaseState1.{meth}"), _pos(repo.func(RB, f"RebaseState1.{meth}"), st, *vals))
        except Raised as r:
            return ("raises", r.name)

    sbad, sevaluable = [], True
    try:
        if _m("has_plan") is not False:
            sbad.append("has_plan() is not False before any plan was written")
        if _m("read_active_revid") is not None:
            sbad.append("read_active_revid() is not None before any revision was recorded")
        for info in infos:
            cur_info[0] = info
            for plan in plans[:12]:
                _m("write_plan", plan)
                if _m("has_plan") is not True:
                    sbad.append(f"has_plan() is not True after write_plan({plan!r})")
                got = _m("read_plan")
                if got != (info, plan):
                    sbad.append(f"read_plan() after write_plan({plan!r}) at {info!r} gives {got!r}")
        _m("remove_plan")
        if _m("has_plan") is not False:
            sbad.append("has_plan() is not False after remove_plan()")
        if _m("read_plan") != ("raises", "NoSuchFile"):
            sbad.append("read_plan() after remove_plan() does not raise NoSuchFile")
        for r_ in ids[2:5]:
            _m("write_active_revid", r_)
            if _m("read_active_revid") != r_:
                sbad.append(f"read_active_revid() after write_active_revid({r_!r}) gives {_m('read_active_revid')!r}")
        _m("write_active_revid", None)
        if _m("read_active_revid") is not None:
            sbad.append("read_active_revid() is not None after write_active_revid(None)")
        if len({n_ for n_ in files}) != 2:
            sbad.append(f"the plan and the active revision share a file or use several: {sorted(files)}")
    except (Unsupported, AttributeError, TypeError, ValueError) as ex:
        sevaluable = False
        raise AnalysisError(f"{wst}: not evaluable by the abstract interpreter ({ex}) — hand-confirmed evaluable on the pinned tree, so the rule cannot be decided on this one")
    if sevaluable:
        ctx.fact(3 * 12 * 2 + 9)
        ctx.check("state-roundtrip-table", wst, not sbad, "has_plan/read_plan return what write_plan stored (36 plans), remove_plan empties it, read_active_revid returns what write_active_revid stored, None included", construct=sbad[0][:200] if sbad else "", message=f"the saved rebase state does not load back: {sbad[0] if sbad else ''} — `rebase-continue` after an interruption works on a different plan or refuses a valid one")

    # ---- (i) the plan is replayed parents first -------------------------------------------------------------------------
    frb = repo.func(RB, "rebase")
    wrb = f"{RB}:rebase"
    rw = [a.arg for a in frb.args.args][-1]
    loops_rb = [l_ for l_ in walk_own(frb) if isinstance(l_, ast.For) and any(isinstance(c.func, ast.Name) and c.func.id == rw for c in calls_in(l_))]
    ctx.require(len(loops_rb) == 1, f"{wrb}: the loop that calls the revision rewriter was not found")
    it_names = {n.id for n in ast.walk(loops_rb[0].iter) if isinstance(n, ast.Name)}
    srcs_rb = [loops_rb[0].iter] + [a.value for a in walk_own(frb) if isinstance(a, ast.Assign) and any(norm(t) in it_names for t in a.targets)]
    topo = any(call_attr(c) == "iter_topo_order" for e in srcs_rb for c in calls_in(ast.Expr(value=e)))
    ctx.check("replay-parents-first", wrb, topo, "the revisions are rewritten in graph.iter_topo_order of the plan's keys", construct=norm(loops_rb[0].iter), message="rebase() replays the plan in the order of the mapping instead of a topological order of the old revisions: generate_transpose_plan updates merge children in place, so its plans are not parents-first — a revision is rewritten before the rewritten copy of one of its new parents exists (the commit fails or gets the wrong parent)")

MUTANTS = [
    Mutant("rebase plans against the upstream tip instead of --onto", "breezy/plugins/rewrite/commands.py", "            our_new, onto_unique = repo_graph.find_difference(stop_revid, onto)\n", "            our_new, onto_unique = repo_graph.find_difference(stop_revid, upstream_revision)\n", expect="todo-set-relative-to-new-base"),
    Mutant("rebase replays in plan order", RB, "    todo = list(graph.iter_topo_order(replace_map.keys()))\n", "    todo = list(replace_map)\n", expect="replay-parents-first"),
    Mutant("stored plan is refused as missing", RB, '        if text == b"":\n            raise NoSuchFile(REBASE_PLAN_FILENAME)\n', '        if text != b"":\n            raise NoSuchFile(REBASE_PLAN_FILENAME)\n', expect="state-roundtrip-table"),
    Mutant("active revision: null is returned as an id", RB, '            if text == NULL_REVISION:\n                return None\n            return text\n', '            return text\n', expect="state-roundtrip-table"),
    Mutant("plan reader keeps only blank lines", RB, '        if l == b"":\n            # Skip empty lines\n            continue\n', '        if l != b"":\n            # Skip empty lines\n            continue\n', expect="plan-roundtrip-table"),
    Mutant("plan reader refuses its own header", RB, '    if lines[0] != b"# Bazaar rebase plan %d" % REBASE_PLAN_VERSION:\n', '    if lines[0] == b"# Bazaar rebase plan %d" % REBASE_PLAN_VERSION:\n', expect="plan-roundtrip-table"),
    Mutant("plan writer sorts the parents of an entry", RB, '            + b"".join([b" %s" % p for p in newparents])\n', '            + b"".join([b" %s" % p for p in sorted(newparents)])\n', expect="plan-roundtrip-table"),
    Mutant("later plan entries assumed pending after the first miss", RB, "        if not repository.has_revision(parent_ids[0]):\n            yield revid\n", "        if pending or not repository.has_revision(parent_ids[0]):\n            pending = True\n            yield revid\n", expect="todo-decided-per-entry"),
    Mutant("plan keeps only descendants of the start revision", RB, "    todo = order[order.index(start_revid) : order.index(stop_revid) + 1]\n", "    todo = [r for r in order[order.index(start_revid) : order.index(stop_revid) + 1] if r == start_revid or parent_map[r]]\n", expect="plan-covers-range"),
    Mutant("processed children skipped in the transpose plan", RB, "                if c in renames:\n                    continue\n", "                if c in renames or c in processed:\n                    continue\n", expect="transpose-recomputes-per-parent"),
    Mutant("neutral: slice bounds through temporaries", RB, "    todo = order[order.index(start_revid) : order.index(stop_revid) + 1]\n", "    first = order.index(start_revid)\n    last = order.index(stop_revid)\n    todo = order[first : last + 1]\n", neutral=True),
    Mutant("header differs on the writer", RB, "    ret = b\"# Bazaar rebase plan %d\\n\" % REBASE_PLAN_VERSION", "    ret = b\"# Bazaar rebase plan v%d\\n\" % REBASE_PLAN_VERSION", expect="header"),
    Mutant("parents joined by commas", RB, "            + b\"\".join([b\" %s\" % p for p in newparents])", "            + b\" \" + b\",\".join(newparents)", expect="plan-lines"),
    Mutant("reader drops the parents", RB, "        replace_map[pts[0]] = (pts[1], tuple(pts[2:]))", "        replace_map[pts[0]] = (pts[1], tuple(pts[3:]))", expect="plan-lines"),
    Mutant("plan read from another file", RB, "        text = self.transport.get_bytes(REBASE_PLAN_FILENAME)", "        text = self.transport.get_bytes(REBASE_CURRENT_REVID_FILENAME)", expect="state-file-names"),
    Mutant("neutral: locals renamed", RB, "    for oldrev in replace_map:\n        (newrev, newparents) = replace_map[oldrev]", "    for oldrev in replace_map:\n        (newrev, newparents) = replace_map[oldrev]\n        _unused = newrev", neutral=True),
]
