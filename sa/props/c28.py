"""C28 — reentrant lock wrappers take/release the physical lock exactly once.

Typestate extraction (K8): the lock_read / lock_write / unlock methods of the
three wrappers are evaluated abstractly (sa.absint) over their bookkeeping
fields; calls on the wrapped physical lock are emitted as events; the
resulting transition system is explored exhaustively to nesting depth 4 and
compared with the reference semantics stated in the property.
"""

import ast

from ..absint import Interp, Obj, Opaque, Raised, Unsupported
from ..astutil import call_attr, call_recv, dotted, norm, walk_own
from ..index import AnalysisError
from ..selftest import Mutant

ID = "C28"
TECHNIQUE = "typestate extraction by abstract interpretation of the lock methods' ASTs + field/call ownership lints (ast)"
EXHAUSTIVE = True
FLOOR = 162
EXPLANATION = """
Rule K8 (typestate): for breezy/counted_lock.py:CountedLock, breezy/bzr/lockable_files.py:LockableFiles and
breezy/bzr/pack_repo.py:PackRepository (composed with the extracted LockableFiles machine as its control_files) the
methods lock_read, lock_write, unlock are evaluated abstractly on their bookkeeping fields (_lock_mode, _lock_count,
_write_lock_count); calls on the wrapped physical lock are recorded as acquire/release events. All call sequences up
to nesting depth 4 are explored (breadth first, states deduplicated), with two outcomes for every physical acquire
(succeeds / raises) and for validate_token (accepts / raises). Each transition is compared with the reference
semantics of the property: physical acquire exactly on the 0->1 transition (none for PackRepository's logical write
lock), physical release exactly on 1->0, no event otherwise; lock_write while read-locked raises with fields and
events unchanged; unlock when not held is refused with state unchanged; a failing acquire or token check leaves the
fields unchanged; PackRepository read-locks its fallback repositories exactly with the first lock and unlocks them
exactly with the last unlock (never on a refused call). Supporting lints: (K4 field ownership) the tracked fields are assigned only in __init__, the three
lock methods and break_lock; (K4 call ownership) lock_read/lock_write/unlock of the physical lock object are called
only from those methods; (count lint) the counters are compared only with the constants 0 and 1, which makes depth 4
representative of all depths. Calls on other objects are neutral (listed in evidence); branching on their results is
an analysis error, not a guess.
K8-overunlock-leaves-others: an unlock() that releases another lockable in a finally clause refuses up front when not held or
conditions that release on its own state captured before (weave_fmt's all-in-one formats tabled).
Added while testing against seeded changes: K8-failed-release-forgets: a failing physical unlock on the last unlock
propagates and leaves CountedLock / LockableFiles unlocked; K3-acquisition-unwinds: (git sibling: GitWorkingTree._lock_write_tree records mode/count only after index.lock is held;) DirStateWorkingTree.lock_read /
_lock_self_write release the control-files lock and the branch when a later acquisition step fails.
K9 (fourth round, two instances with a failing history each): GitBranch.lock_write and RemoteBranch.lock_write catch a failing
repository.lock_write() after their own lock was taken, give the own lock back and re-raise. K10: every unlock that counts
_locks/_lock_count down refuses at zero (10 methods).
Does not decide: Repository/Branch/WorkingTree objects built on these wrappers (they delegate), nor failures of the
unrelated calls made while locking.
"""
ASSUMPTIONS = [
    "LockableFiles.get_transaction().writeable() is true exactly in write mode (WriteTransaction vs ReadOnlyTransaction)",
    "lock.cant_unlock_not_held() is a refusal (raises LockNotHeld or warns) and does not touch the lock",
    "debug.debug_flag_enabled(...) is false (relock diagnostics are not part of the property)",
    "PackRepository is modelled with one fallback repository (its lock_read/unlock calls are events) and no live write group (write groups are C06)",
]

DEPTH = 4

WRAPPERS = [
    {
        "name": "CountedLock",
        "release_fail_resets": True,
        "rel": "breezy/counted_lock.py",
        "cls": "CountedLock",
        "fields": {"_lock_mode": None, "_lock_count": 0, "_token": None},
        "tracked": ("_lock_mode", "_lock_count"),
        "phys": "_real_lock",
        "phys_in_write": True,
        "owners": {"__init__", "lock_read", "lock_write", "unlock", "break_lock"},
        "inline": set(),
    },
    {
        "name": "LockableFiles",
        "release_fail_resets": True,
        "rel": "breezy/bzr/lockable_files.py",
        "cls": "LockableFiles",
        "fields": {"_lock_mode": None, "_lock_count": 0, "_token_from_lock": None, "_transaction": None},
        "tracked": ("_lock_mode", "_lock_count"),
        "phys": "_lock",
        "phys_in_write": True,
        "owners": {"__init__", "lock_read", "lock_write", "unlock", "break_lock"},
        "inline": {"is_locked"},
    },
    {
        "name": "PackRepository",
        "rel": "breezy/bzr/pack_repo.py",
        "cls": "PackRepository",
        "fields": {"_write_lock_count": 0, "_write_group": None, "_transaction": None, "_prev_lock": None},
        "tracked": ("_write_lock_count",),
        "phys": None,  # physical lock reached through control_files (LockableFiles)
        "phys_in_write": False,
        "owners": {"__init__", "lock_read", "lock_write", "unlock", "break_lock"},
        "inline": {"is_locked", "is_write_locked"},
        "sub": {"control_files": "LockableFiles"},
        "fallback": True,  # one fallback repository whose lock_read/unlock calls are recorded as events
    },
]
BY_NAME = {w["name"]: w for w in WRAPPERS}
PHYS_ACQUIRE = {"lock_read", "lock_write"}
PHYS_RELEASE = {"unlock"}


class World:
    """Choices for one abstract step + recorded events."""

    def __init__(self, acquire_fails=False, token_fails=False, release_fails=False):
        self.acquire_fails = acquire_fails
        self.token_fails = token_fails
        self.release_fails = release_fails
        self.events = []
        self.neutral = set()
        self.asked_acquire = False
        self.asked_token = False


def make_obj(repo, wname):
    w = BY_NAME[wname]
    o = Obj(wname, **dict(w["fields"]))
    o.set("__wrapper__", wname)
    if w["phys"]:
        o.set(w["phys"], Obj("phys"))
    for attr, sub in w.get("sub", {}).items():
        o.set(attr, make_obj(repo, sub))
    if w.get("fallback"):
        o.set("_fallback_repositories", (Obj("fallback"),))
    return o


def clone(o):
    c = Obj(o._name)
    for k, v in o._f.items():
        c.set(k, clone(v) if isinstance(v, Obj) else v)
    return c


def snap(o, repo=None):
    """Tracked-field snapshot (recursively through sub-wrappers)."""
    w = BY_NAME[o.get("__wrapper__")]
    s = [(f, o.get(f)) for f in w["tracked"]]
    for attr in w.get("sub", {}):
        s.append((attr, snap(o.get(attr))))
    return tuple(s)


def build_interp(repo, world):
    def hook(interp, call, name, ev_args, env):
        f = call.func
        if not isinstance(f, ast.Attribute):
            # plain-name calls: builtins fall through, everything else neutral
            if isinstance(f, ast.Name) and f.id in ("len", "set", "list", "tuple", "bool", "isinstance"):
                return NotImplemented
            world.neutral.add(name or norm(f))
            return Opaque(name or "call")
        # tabled special case (see ASSUMPTIONS)
        if name == "self.get_transaction().writeable":
            me = env["self"]
            return me.get("_lock_mode") == "w"
        if name == "debug.debug_flag_enabled":
            return False  # diagnostics only (ASSUMPTIONS)
        if name == "lock.cant_unlock_not_held":
            raise Raised("LockNotHeld", (), call)
        try:
            recv = interp.expr(f.value, env)
        except Unsupported:
            world.neutral.add(name or norm(f))
            return Opaque(name or "call")
        meth = f.attr
        if isinstance(recv, Obj) and recv._name == "phys":
            if meth in PHYS_ACQUIRE:
                world.asked_acquire = True
                if world.acquire_fails:
                    raise Raised("LockContention", (), call)
                world.events.append("acquire:" + meth)
                return Opaque("token")
            if meth in PHYS_RELEASE:
                world.events.append("release")
                if world.release_fails:
                    raise Raised("LockBroken", (), call)
                return None
            if meth == "validate_token":
                world.asked_token = True
                if world.token_fails:
                    raise Raised("TokenMismatch", (), call)
                return None
            world.neutral.add("phys." + meth)
            return Opaque("phys." + meth)
        if isinstance(recv, Obj) and recv._name == "fallback":
            if meth == "lock_read":
                world.events.append("fb+")
                return Opaque("lock")
            if meth == "unlock":
                world.events.append("fb-")
                return None
            world.neutral.add("fallback." + meth)
            return Opaque("fallback." + meth)
        if isinstance(recv, Obj) and recv.has("__wrapper__"):
            w = BY_NAME[recv.get("__wrapper__")]
            if meth in ("lock_read", "lock_write", "unlock") or meth in w["inline"]:
                fn = repo.func(w["rel"], f"{w['cls']}.{meth}")
                args, kwargs = ev_args()
                params = [a.arg for a in fn.args.args][1:]
                envc = {"self": recv}
                envc.update(dict(zip(params, args)))
                envc.update(kwargs)
                return interp.call(fn, envc)
            world.neutral.add(f"{recv._name}.{meth}")
            return Opaque(f"{recv._name}.{meth}")
        if isinstance(recv, (Opaque,)) or recv is None or not isinstance(recv, (list, set, dict, tuple, str, bytes)):
            world.neutral.add(name or norm(f))
            return Opaque(name or "call")
        return NotImplemented

    def attr_hook(o, attr):
        if isinstance(o, Obj):
            return Opaque(f"{o._name}.{attr}")
        if isinstance(o, Opaque):
            return Opaque(f"{o.label}.{attr}")
        return NotImplemented

    def name_hook(nm):
        if nm in ("errors", "lock", "debug", "transactions", "note", "RepositoryWriteLockResult", "LogicalLockResult", "counted_lock"):
            return Opaque(nm)
        return NotImplemented

    it = Interp(call_hook=hook, name_hook=name_hook, attr_hook=attr_hook)
    return it


def step(repo, wname, obj, method, with_token, acquire_fails, token_fails, release_fails=False):
    """Evaluate one method call abstractly.  Returns (obj', outcome, events, world)."""
    w = BY_NAME[wname]
    o2 = clone(obj)
    world = World(acquire_fails, token_fails, release_fails)
    it = build_interp(repo, world)
    fn = repo.func(w["rel"], f"{w['cls']}.{method}")
    env = {"self": o2}
    params = [a.arg for a in fn.args.args][1:]
    if "token" in params:
        env["token"] = Opaque("token") if with_token else None
    try:
        it.call(fn, env)
        outcome = "ok"
    except Raised as r:
        outcome = "raise:" + r.name.split(".")[-1]
    return o2, outcome, list(world.events), world


def lint_ownership(ctx, repo, w):
    where = f"{w['rel']}:{w['cls']}"
    cls = repo.cls(w["rel"], w["cls"])
    tracked = set(w["tracked"])
    bad_assign, bad_calls, bad_cmp = [], [], []
    n_assign = n_calls = n_cmp = 0
    phys_names = set()
    if w["phys"]:
        phys_names.add("self." + w["phys"])
    for attr in w.get("sub", {}):
        phys_names.add("self." + attr)
    for item in cls.body:
        if not isinstance(item, (ast.FunctionDef, ast.AsyncFunctionDef)):
            continue
        for n in walk_own(item):
            if isinstance(n, ast.Attribute) and isinstance(n.ctx, (ast.Store, ast.Del)) and dotted(n.value) == "self" and n.attr in tracked:
                n_assign += 1
                if item.name not in w["owners"]:
                    bad_assign.append(f"{item.name}: self.{n.attr} assigned at line {n.lineno}")
            if isinstance(n, ast.Call) and call_recv(n) in phys_names and call_attr(n) in (PHYS_ACQUIRE | PHYS_RELEASE):
                n_calls += 1
                if item.name not in w["owners"]:
                    bad_calls.append(f"{item.name}: {norm(n)[:60]} at line {n.lineno}")
            if isinstance(n, ast.Compare):
                names = {dotted(x) for x in [n.left] + n.comparators}
                if names & {"self._lock_count", "self._write_lock_count"}:
                    n_cmp += 1
                    for x in [n.left] + n.comparators:
                        if isinstance(x, ast.Constant) and x.value not in (0, 1):
                            bad_cmp.append(f"{item.name}: `{norm(n)}`")
    ctx.check("K4-field-owner", where, not bad_assign, f"tracked fields {sorted(tracked)} assigned only in {sorted(w['owners'])} ({n_assign} stores)", construct="; ".join(bad_assign), message="bookkeeping field written outside the lock methods: " + "; ".join(bad_assign))
    ctx.check("K4-phys-owner", where, not bad_calls, f"physical lock acquire/release called only from the lock methods ({n_calls} call sites)", construct="; ".join(bad_calls), message="physical lock operated outside the lock methods: " + "; ".join(bad_calls))
    ctx.check("K8-count-lint", where, not bad_cmp, f"lock counters compared only with 0 and 1 ({n_cmp} comparisons)", construct="; ".join(bad_cmp), message="counter compared with a constant other than 0/1, depth-4 exploration is not representative: " + "; ".join(bad_cmp))
    # the same fields must not be written from other modules' code on this class (subclasses in repo)
    return n_assign, n_calls


def explore(ctx, repo, w):
    wname = w["name"]
    where = f"{w['rel']}:{w['cls']}"
    init = make_obj(repo, wname)
    # ghost: (depth, first_mode, phys)
    start = (init, (0, None, 0))
    seen = {}
    frontier = [start]
    transitions = 0
    neutral = set()
    key = lambda o, g: (snap(o), g)
    seen[key(*start)] = True
    while frontier:
        nxt = []
        for obj, (depth, mode, phys) in frontier:
            for method in ("lock_read", "lock_write", "unlock"):
                variants = [(False, False, False)]
                if method == "lock_write":
                    variants = [(tok, False, False) for tok in (False, True)]
                base_variants = list(variants)
                for with_token, _, _ in base_variants:
                    for acquire_fails, token_fails in ((False, False), (True, False), (False, True)):
                        o2, outcome, events, world = step(repo, wname, obj, method, with_token, acquire_fails, token_fails)
                        if acquire_fails and not world.asked_acquire:
                            continue  # this variant is identical to the non-failing one
                        if token_fails and not world.asked_token:
                            continue
                        neutral |= world.neutral
                        transitions += 1
                        acq = sum(1 for e in events if e.startswith("acquire"))
                        rel = sum(1 for e in events if e == "release")
                        before, after = snap(obj), snap(o2)
                        desc = f"{wname}.{method}({'token' if with_token else ''}) at depth={depth} mode={mode} phys={phys}" + (" [acquire fails]" if acquire_fails else "") + (" [token rejected]" if token_fails else "") + f" -> {outcome}, events={events}, fields {dict(before)} -> {dict(after)}"
                        ctx.sample(desc) if transitions in (1, 5, 9, 14, 22, 31) else None
                        ng = None
                        if w.get("fallback"):
                            fbp, fbm = events.count("fb+"), events.count("fb-")
                            failing = acquire_fails or token_fails
                            refused = (method == "lock_write" and depth > 0 and mode == "r") or (method == "unlock" and depth == 0)
                            want_p = 1 if (method != "unlock" and depth == 0 and not failing) else 0
                            want_m = 1 if (method == "unlock" and depth == 1) else 0
                            ctx.check("K8-fallback-once", where, (fbp, fbm) == (want_p, want_m), "fallback repositories are read-locked exactly with the first lock and unlocked exactly with the last unlock" + (" (nothing on a refusal)" if refused or failing else "") + ": " + desc, construct=desc)
                        if acquire_fails or token_fails:
                            ctx.check("K8-fail-unchanged", where, outcome.startswith("raise") and after == before and acq == 0 and rel == 0, "failing acquire/token check propagates and leaves bookkeeping unchanged: " + desc, construct=desc)
                            continue
                        if method == "lock_read":
                            if depth == 0:
                                ok = outcome == "ok" and acq == 1 and rel == 0
                                ng = (1, "r", phys + acq - rel)
                            else:
                                ok = outcome == "ok" and acq == 0 and rel == 0
                                ng = (depth + 1, mode, phys)
                            ctx.check("K8-acquire-once", where, ok, "physical acquire exactly on the first lock: " + desc, construct=desc)
                        elif method == "lock_write":
                            if depth == 0:
                                want = 1 if w["phys_in_write"] else 0
                                ok = outcome == "ok" and acq == want and rel == 0
                                ng = (1, "w", phys + acq - rel)
                                ctx.check("K8-acquire-once", where, ok, "physical acquire exactly on the first lock: " + desc, construct=desc)
                            elif mode == "r":
                                ok = outcome.startswith("raise") and after == before and acq == 0 and rel == 0
                                ctx.check("K8-readonly-refused", where, ok, "lock_write while read-locked is refused without changing state: " + desc, construct=desc)
                                ng = None
                            else:
                                ok = outcome == "ok" and acq == 0 and rel == 0
                                ng = (depth + 1, mode, phys)
                                ctx.check("K8-acquire-once", where, ok, "re-entrant lock_write takes no physical lock: " + desc, construct=desc)
                        else:  # unlock
                            if depth == 0:
                                ok = outcome.startswith("raise") and after == before and acq == 0 and rel == 0
                                ctx.check("K8-overunlock-refused", where, ok, "unlock when not held is refused with state unchanged: " + desc, construct=desc)
                                ng = None
                            elif depth == 1:
                                want = phys
                                ok = outcome == "ok" and rel == want and acq == 0
                                ng = (0, None, phys - rel)
                                ctx.check("K8-release-once", where, ok, "physical release exactly on the last unlock: " + desc, construct=desc)
                                ctx.check("K8-initial-state", where, snap(o2) == snap(init), "after the last unlock the bookkeeping is back in its initial state: " + desc, construct=desc)
                                if w.get("release_fail_resets") and phys:
                                    # the physical unlock itself fails (e.g. LockBroken after a break-lock): the wrapper must
                                    # not go on believing it holds the lock
                                    o3, out3, ev3, _w3 = step(repo, wname, obj, method, with_token, False, False, release_fails=True)
                                    transitions += 1
                                    ctx.check("K8-failed-release-forgets", where, out3.startswith("raise") and snap(o3) == snap(init), f"{wname}.unlock at depth=1: a failing physical unlock propagates and leaves the bookkeeping unlocked ({out3}, fields {dict(snap(o3))})", construct=f"{out3} {dict(snap(o3))}", message=f"{wname}.unlock: when the physical unlock raises on the last unlock the wrapper still counts itself locked ({dict(snap(o3))}): the next lock_write() is answered from the counter without taking the physical lock")
                            else:
                                ok = outcome == "ok" and rel == 0 and acq == 0
                                ng = (depth - 1, mode, phys)
                                ctx.check("K8-release-once", where, ok, "nested unlock releases nothing: " + desc, construct=desc)
                        if ng is not None and ok and ng[0] <= (DEPTH + 3 if ctx.tier == "thorough" else DEPTH):
                            k = key(o2, ng)
                            if k not in seen:
                                seen[k] = True
                                nxt.append((o2, ng))
        frontier = nxt
    return len(seen), transitions, neutral


def run(ctx):
    repo = ctx.repo
    stats = {}
    for w in WRAPPERS:
        for m in ("lock_read", "lock_write", "unlock"):
            repo.func(w["rel"], f"{w['cls']}.{m}")  # anchors must exist
        lint_ownership(ctx, repo, w)
        states, transitions, neutral = explore(ctx, repo, w)
        stats[w["name"]] = {"states": states, "transitions": transitions, "neutral_calls": sorted(neutral)}
        ctx.require(states >= 2 * DEPTH, f"{w['name']}: only {states} abstract states reached, exploration is degenerate")
    # ---- multi-resource acquisition unwinds: a lock taken earlier in the same call is released when a later step fails ----
    from ..rules import calling, fn_cfg, need

    WT4 = "breezy/bzr/workingtree_4.py"
    for meth, acq_attr in (("lock_read", "lock_read"), ("_lock_self_write", "lock_write")):
        fn, g, where = fn_cfg(ctx, WT4, f"DirStateWorkingTree.{meth}")
        acq = need(where, calling(g, attr=acq_attr, recv="self._control_files"), f"self._control_files.{acq_attr}()")
        rel = calling(g, attr="unlock", recv="self._control_files")
        # statements that run after the control-files lock was obtained
        after = g.without_exc_edges().reach(acq)
        xs = [b for n_ in after for (b, l_) in g.succ[n_] if l_ == "X"]
        leak = g.raise_exit in g.reach(xs, avoid=set(rel), include_src=True) if xs else False
        ctx.check("K3-acquisition-unwinds", where, bool(rel) and bool(xs) and not leak, f"a failure after self._control_files.{acq_attr}() succeeded (e.g. the dirstate's own lock is refused) releases the control-files lock before propagating", message=f"DirStateWorkingTree.{meth}: when a step after self._control_files.{acq_attr}() fails, the control-files lock (the tree's physical LockDir) is not released: a refused lock leaves the tree locked on disk with the counter off by one")
        br = calling(g, attr="unlock", recv="self.branch")
        xs2 = [b for n_ in acq for (b, l_) in g.succ[n_] if l_ == "X"] + xs
        ctx.check("K3-acquisition-unwinds", where, bool(br) and g.raise_exit not in g.reach(xs2, avoid=set(br), include_src=True), "any failure after the branch was locked unlocks the branch again")
    # ---- sibling (git working tree): the bookkeeping says "locked" only once the lock file is held ------------------------
    # GitWorkingTree._lock_write_tree: no assignment to _lock_mode / _lock_count lies on a path *before* the fallible
    # acquisition of index.lock (GitFile(..., "wb")) — otherwise a refused attempt leaves the object claiming a write lock
    GW = "breezy/git/workingtree.py"
    fng, gg, whereg = fn_cfg(ctx, GW, "GitWorkingTree._lock_write_tree")
    acqg = need(whereg, calling(gg, name="GitFile"), "GitFile(<index>, 'wb')")
    setg = [n.id for n in gg.nodes if n.kind == "stmt" and isinstance(n.ast, ast.Assign) and norm(n.ast.targets[0]) in ("self._lock_mode", "self._lock_count") and not (isinstance(n.ast.value, ast.Constant) and n.ast.value.value in (None, 0))]
    ggx = gg.without_exc_edges()
    early = sorted(i for i in setg if set(acqg) & ggx.reach([i]))
    ctx.check("K3-acquisition-unwinds", whereg, bool(setg) and not early, "the lock mode/count are recorded only after index.lock was obtained", construct="; ".join(gg.nodes[i].text() for i in early), message="GitWorkingTree._lock_write_tree records the write lock (" + "; ".join(gg.nodes[i].text() for i in early) + ") before it tries to take index.lock: when that is refused (LockContention) the object still claims to be write-locked, later lock calls only bump the count and never hold the lock file")
    # ---- composite locks: an unmatched unlock is refused *and* leaves the other object's lock alone ----------------------
    # An unlock() that releases another lockable (branch -> repository, tree -> branch) on the way out of its own release
    # — in a `finally:` around it, i.e. also when its own release was refused with LockNotHeld — must either refuse up front
    # when it is not held, or condition that release on its own state captured before.  Otherwise `x.unlock()` on an
    # unlocked x raises and still takes away a lock somebody else holds on the shared repository / branch object.
    OTHER = ("self.repository", "self.branch", "self._repository")
    ALL_IN_ONE = {"breezy/plugins/weave_fmt/branch.py": "all-in-one formats: branch, repository and tree share one control-files object, their counts are not separable", "breezy/plugins/weave_fmt/workingtree.py": "all-in-one formats (see branch.py)"}
    n_comp = 0
    for rel_ in repo.python_files():
        if "def unlock" not in repo.text(rel_):
            continue
        for q_, f_ in repo.module(rel_).functions().items():
            if not q_.endswith(".unlock") or "." not in q_:
                continue
            in_finally = [c for t in ast.walk(f_) if isinstance(t, ast.Try) for st in t.finalbody for c in ast.walk(st) if isinstance(c, ast.Call) and call_attr(c) == "unlock" and call_recv(c) in OTHER]
            if not in_finally:
                continue
            n_comp += 1
            if rel_ in ALL_IN_ONE:
                ctx.info("K8-overunlock-leaves-others", f"{rel_}:{q_}", f"tabled exception: {ALL_IN_ONE[rel_]}")
                continue
            body = [st for st in f_.body if not (isinstance(st, ast.Expr) and isinstance(st.value, ast.Constant))]
            first = body[0] if body else None
            guard_first = isinstance(first, ast.If) and any(isinstance(x, (ast.Raise, ast.Return)) for x in first.body) and any(k in norm(first.test) for k in ("_lock_count", "_lock_mode", "is_locked"))
            tries = [t for t in ast.walk(f_) if isinstance(t, ast.Try) and t.finalbody]
            first_try = min((t.lineno for t in tries), default=10**9)
            pre_state = {norm(a.targets[0]) for a in walk_own(f_) if isinstance(a, ast.Assign) and isinstance(a.targets[0], ast.Name) and any(k in norm(a.value) for k in ("is_locked()", "_lock_count", "_lock_mode")) and a.lineno < first_try}
            cond_ok = bool(pre_state) and all(any(isinstance(i_, ast.If) and any(x is c for s_ in i_.body for x in ast.walk(s_)) and any(isinstance(nm, ast.Name) and nm.id in pre_state for nm in ast.walk(i_.test)) for i_ in ast.walk(f_)) for c in in_finally)
            others = sorted({call_recv(c) for c in in_finally})
            ctx.check("K8-overunlock-leaves-others", f"{rel_}:{q_}", guard_first or cond_ok, f"{q_}: an unmatched unlock cannot reach {others}.unlock()", construct="; ".join(f"L{c.lineno}:{norm(c)}" for c in in_finally), message=f"{q_} unlocks {others} in a finally clause even when it was not locked itself (no not-held guard up front, and the release is not conditioned on its own state before the unlock): `x.unlock()` on an unlocked object is refused with LockNotHeld and nevertheless takes away a lock somebody else holds on the shared {others[0].split('.')[-1].lstrip('_')} object — its physical lock is released before the matching last unlock")
    ctx.require(n_comp >= 5, f"only {n_comp} unlock methods releasing another lockable in a finally clause found (hand-confirmed: 6)")
    # ---- K9: a lock method that has recorded its own lock undoes it when locking the object it depends on fails -----------
    STATE = ("self._lock_mode", "self._lock_count", "self._locks", "self._lock_token")

    def _touches_state(node):
        return any(isinstance(n, (ast.Assign, ast.AugAssign)) and any(norm(t_) in STATE or any(norm(e) in STATE for e in getattr(t_, "elts", [])) for t_ in (n.targets if isinstance(n, ast.Assign) else [n.target])) for n in ast.walk(node)) or any(call_attr(c) in ("unlock", "_unlock_ref", "_unlock") and call_recv(c) == "self" for c in ast.walk(node) if isinstance(c, ast.Call))

    #: (file, method, inner lock call) — confirmed by a failing history each (findings/C28_*_lock_write_leak.py).  BzrBranch.lock_write is
    #: the sibling with the other order (repository first, own lock in a try that gives the repository back) and is covered by K3.
    K9 = [
        ("breezy/git/branch.py", "GitBranch.lock_write", "self.repository.lock_write"),
        ("breezy/bzr/remote.py", "RemoteBranch.lock_write", "self.repository.lock_write"),
    ]
    for rel_, q_, inner in K9:
        f_ = repo.func(rel_, q_)
        parents_ = {}
        for n in ast.walk(f_):
            for ch in ast.iter_child_nodes(n):
                parents_[id(ch)] = n
        sites = [c for c in ast.walk(f_) if isinstance(c, ast.Call) and norm(c.func) == inner]
        ctx.require(bool(sites), f"{rel_}:{q_}: {inner}(...) not found")
        # the first-acquisition site: the one that follows the call that takes this object's own lock
        guarded = []
        for c in sites:
            cur, ok_ = c, False
            while id(cur) in parents_:
                par = parents_[id(cur)]
                if isinstance(par, ast.Try) and any(any(cur is y for y in ast.walk(x)) for x in par.body):
                    if any(_touches_state(ast.Module(body=h.body, type_ignores=[])) and any(isinstance(r_, ast.Raise) for b in h.body for r_ in ast.walk(b)) for h in par.handlers):
                        ok_ = True
                cur = par
            guarded.append(ok_)
        ctx.check("K9-own-lock-undone-when-dependency-refuses", f"{rel_}:{q_}", any(guarded), f"a failing {inner}() after this object's own lock was taken is caught, the own lock is given back and the error re-raised", construct=f"{inner} guarded: {guarded}", message=f"{q_} takes its own lock (and records it) and then calls {inner}() without a handler that undoes the first step: when the second lock is refused (ReadOnlyError on a read-locked repository, contention) the branch stays locked — physically, so every other process gets LockContention — although lock_write() raised")
    # ---- K10: an unlock that counts down refuses at zero ----------------------------------------------------------------
    n_cnt = 0
    for rel_ in repo.python_files():
        if "/tests/" in rel_ or not rel_.startswith("breezy/") or "def unlock" not in repo.text(rel_):
            continue
        for q_, f_ in repo.module(rel_).functions().items():
            if not q_.endswith(".unlock"):
                continue
            decs = [n for n in ast.walk(f_) if isinstance(n, ast.AugAssign) and isinstance(n.op, ast.Sub) and norm(n.target) in ("self._locks", "self._lock_count")]
            if not decs:
                continue
            n_cnt += 1
            var = norm(decs[0].target)
            refuse = [i for i in ast.walk(f_) if isinstance(i, ast.If) and any(isinstance(x, (ast.Raise, ast.Return)) for b in i.body for x in ast.walk(b)) and ((var in norm(i.test) and any(k in norm(i.test) for k in ("== 0", "not " + var, "< 1", "<= 0"))) or "is_locked" in norm(i.test) or "_lock_mode" in norm(i.test))]
            ctx.check("K10-unlock-refuses-at-zero", f"{rel_}:{q_}", bool(refuse), f"{q_} refuses (raises / returns the not-held result) before it counts {var} down from zero", message=f"{q_} decrements {var} without a guard for zero: an unmatched unlock() drives the count negative, the next lock call finds a count other than 'first lock' and returns without locking anything underneath")
    ctx.require(n_cnt >= 8, f"only {n_cnt} counting unlock methods found (hand-confirmed: 10)")
    ctx.extra["typestate"] = stats
    ctx.extra["states"] = sum(s["states"] for s in stats.values())
    ctx.extra["transitions"] = sum(s["transitions"] for s in stats.values())
    # delegations (information): classes whose lock methods delegate to these wrappers
    ctx.info("K4", "breezy/repository.py", "Repository/Branch/WorkingTree wrappers delegate to control_files / CountedLock; not decided here")


CL = "breezy/counted_lock.py"
LF = "breezy/bzr/lockable_files.py"
PR = "breezy/bzr/pack_repo.py"

MUTANTS = [
    Mutant("git branch keeps its ref lock when the repository refuses (fix fbb8084 reverted)", "breezy/git/branch.py", "        try:\n            self.repository.lock_write()\n        except BaseException:\n            # Undo what this call did, as a failed unlock() would not.\n            self._lock_count -= 1\n            if self._lock_count == 0:\n                self._unlock_ref()\n                self._lock_mode = None\n            raise\n", "        self.repository.lock_write()\n", expect="K9-own-lock-undone-when-dependency-refuses"),
    Mutant("branch unlock releases the repository unconditionally again", "breezy/bzr/branch.py", "            if was_locked and not self.control_files.is_locked():\n", "            if not self.control_files.is_locked():\n", expect="K8-overunlock-leaves-others"),
    Mutant("remote branch unlock loses its not-held guard", "breezy/bzr/remote.py", "        \"\"\"Release the lock on this branch.\"\"\"\n        if not self._lock_count:\n            return lock.cant_unlock_not_held(self)\n", "        \"\"\"Release the lock on this branch.\"\"\"\n", expect="K8-overunlock-leaves-others"),
    Mutant("git tree records the write lock before taking index.lock", "breezy/git/workingtree.py", "        if not self._lock_mode:\n            try:\n                self._index_file = GitFile(", "        if not self._lock_mode:\n            self._lock_mode = \"w\"\n            self._lock_count = 1\n            try:\n                self._index_file = GitFile(", expect="K3-acquisition-unwinds"),
    Mutant("dirstate lock failure leaves the control files locked", "breezy/bzr/workingtree_4.py", "                self._repo_supports_tree_reference = getattr(\n                    self.branch.repository._format, \"supports_tree_reference\", False\n                )\n            except BaseException:\n                self._control_files.unlock()\n                raise\n        except BaseException:\n            self.branch.unlock()\n            raise\n        return LogicalLockResult(self.unlock)", "                self._repo_supports_tree_reference = getattr(\n                    self.branch.repository._format, \"supports_tree_reference\", False\n                )\n            except BaseException:\n                raise\n        except BaseException:\n            self.branch.unlock()\n            raise\n        return LogicalLockResult(self.unlock)", expect="K3-acquisition-unwinds", count=2),
    Mutant("CountedLock releases before forgetting the lock", "breezy/counted_lock.py", "            self._lock_mode = None\n            self._lock_count -= 1\n            self._real_lock.unlock()\n", "            self._real_lock.unlock()\n            self._lock_mode = None\n            self._lock_count -= 1\n", expect="K8-failed-release-forgets"),
    Mutant("CountedLock: re-entry resets the count", CL, "        if self._lock_mode:\n            self._lock_count += 1\n        else:\n            self._real_lock.lock_read()", "        if self._lock_mode:\n            self._lock_count = 1\n        else:\n            self._real_lock.lock_read()", expect=["K8-release-once", "K8-acquire-once", "K8-initial-state", "K8-overunlock-refused"]),
    Mutant("CountedLock: release on every unlock", CL, "        else:\n            self._lock_count -= 1\n", "        else:\n            self._lock_count -= 1\n            self._real_lock.unlock()\n", expect=["K8-release-once"]),
    Mutant("CountedLock: lock_write from read mode silently re-enters", CL, '        elif self._lock_mode != "w":\n            raise errors.ReadOnlyError(self)\n', '        elif self._lock_mode is None:\n            raise errors.ReadOnlyError(self)\n', expect=["K8-readonly-refused"]),
    Mutant("CountedLock: bookkeeping before a failing acquire", CL, "            self._real_lock.lock_read()\n            self._lock_count = 1\n", "            self._lock_count = 1\n            self._real_lock.lock_read()\n", expect=["K8-fail-unchanged"]),
    Mutant("CountedLock: over-unlock tolerated", CL, "        if self._lock_count == 0:\n            raise errors.LockNotHeld(self)\n        elif", "        if self._lock_count == 0:\n            return\n        elif", expect=["K8-overunlock-refused"]),
    Mutant("LockableFiles: count bumped before token validation", LF, "            self._lock.validate_token(token)\n            self._lock_count += 1\n", "            self._lock_count += 1\n            self._lock.validate_token(token)\n", expect=["K8-fail-unchanged"]),
    Mutant("LockableFiles: unlock releases when count > 1", LF, "        if self._lock_count > 1:\n            self._lock_count -= 1\n", "        if self._lock_count > 1:\n            self._lock_count -= 1\n            self._lock.unlock()\n", expect=["K8-release-once"]),
    Mutant("LockableFiles: helper writes the counter", LF, "    def is_locked(self) -> bool:\n        \"\"\"Return true if this LockableFiles group is locked.\"\"\"\n", "    def is_locked(self) -> bool:\n        \"\"\"Return true if this LockableFiles group is locked.\"\"\"\n        self._lock_count = max(self._lock_count, 0)\n", expect=["K4-field-owner"]),
    Mutant("PackRepository: read lock while write-locked takes the physical lock", PR, "        if self._write_lock_count:\n            self._write_lock_count += 1\n        else:\n            self.control_files.lock_read()\n        if not locked:", "        if self._write_lock_count:\n            self._write_lock_count += 1\n            self.control_files.lock_read()\n        else:\n            self.control_files.lock_read()\n        if not locked:", expect=["K8-acquire-once", "K8-release-once", "K8-initial-state"]),
    Mutant("PackRepository: lock_write accepted while read-locked", PR, "        if not self._write_lock_count and locked:\n            raise errors.ReadOnlyError(self)\n", "        if not self._write_lock_count and locked and token is not None:\n            raise errors.ReadOnlyError(self)\n", expect=["K8-readonly-refused"]),
    Mutant("neutral: += 1 written out", CL, "        if self._lock_mode:\n            self._lock_count += 1\n        else:\n            self._real_lock.lock_read()", "        if self._lock_mode:\n            self._lock_count = self._lock_count + 1\n        else:\n            self._real_lock.lock_read()", neutral=True),
    Mutant("neutral: extra trace call in unlock", LF, "            self._finish_transaction()\n            try:\n                self._lock.unlock()", "            self._finish_transaction()\n            self._note_unlock()\n            try:\n                self._lock.unlock()", neutral=True),
]
